"""C03 - identifier-level annotations and tags land on the right GIR element.

A fixed cast of declarations (functions, records, a boxed record, a union, enum + flags, constants,
callbacks, two classes and an interface registered through a dump, with properties, signals,
fields and virtual methods) and a GENERATED SET OF COMMENT BLOCKS whose identifiers are the real
names of those elements or near misses of them.  Oracle:

  direct      the element whose C name the block carries shows the attribute / child that
              giannotations.rst + gir-1.2.rnc document for the annotation or tag
  locality    GIR(all blocks) and GIR(all blocks minus B) differ only inside the element B
              documents (+ the documented partners); a near-miss block changes nothing
  inapplicable an annotation on an element kind the documentation excludes changes nothing

The element table, the identifier -> element map and the applicability table are written here
from the documentation; nothing is read back from giscanner.
"""
import os
import shutil
import subprocess
import sys
import xml.etree.ElementTree as ET

from hypothesis import strategies as st

from vlib import pipeline
from vlib.cmodel import param
from vlib.apigen import T, B, VOID
from vlib.runner import Violation, Discard, crash_clause

ID = 'C03'
LEVEL = 'exploration'
RULE = ('Hypothesis-generated sets of 2-10 comment blocks over a fixed cast (4 plain functions, 2 records, boxed, union, enum, '
        'flags, 3 constants, 2 callbacks, classes FooObj/FooSubObj + interface FooIface from a dump with 8 properties, 6 signals, '
        'instance/class-struct fields, 5 virtual slots with/without invoker; 3 world flags). Block identifiers are real names in all '
        'documented forms (symbol, Class:prop, Class::sig, Struct.field, ClassStruct::vfunc, member, constant, type) or near misses '
        '(other class, other identifier form, prefix/suffix, wrong case, GI name, vfunc via instance type); each block carries 0-3 '
        'identifier annotations from the whole block vocabulary (mostly applicable to the element kind, some deliberately on a kind '
        'the documentation excludes) with targets drawn from the cast, and Since/Deprecated/Stability tags with value and text. Per case 1 + #blocks (+ #blocks with inapplicable '
        'annotations) pipeline runs. non-trivial = at least one block on a nested element (property, signal, field, vfunc, member) '
        'and at least one near-miss block; distinct = hash of the case')
ASSUMPTIONS = [
    'substrate P: cmodel.to_symbols mirrors scannerparser.y (calibrated by tools/calibrate_p.py)',
    'the dump program is replaced by an in-process copy of the prepared dump XML (as in C12); it is not under test here',
    'elements are identified across two GIR documents by the path of (tag, c:identifier or name); <source-position> is ignored',
    'a (skip)/(foreign) on a type may change every element that references the type and everything inside the type; '
    'rename-to competitors may exchange shadows/shadowed-by; accessor/async partners may change only the partner attributes',
    'annotations the documentation does not restrict (constructor/method on a signature that does not permit the role, foreign on '
    'a union/boxed, type on a callback field) are executed and covered by locality only',
]
TECHNIQUE = ('property-based testing (Hypothesis) of comment-block sets on the scanner pipeline behind a stub front end; direct '
             'documentation-derived expectations + metamorphic block-removal locality on parsed GIR')
LEVEL_TEXT = ('Randomised search over block sets on a fixed cast of declarations; the expectations are written from '
              'giannotations.rst and gir-1.2.rnc, the locality clause compares two outputs of the code under test.')
LEVEL_NOTE = 'trusts the symbol-tree model of the C front end and the fixture GIRs; the cast of declarations is fixed (3 flags)'
DESIGN_REF = 'DESIGN.md section 2, C03'

NS = {'name': 'Foo', 'version': '1.0', 'id_prefixes': ['Foo'], 'sym_prefixes': ['foo']}
GI = '{http://www.gtk.org/introspection/core/1.0}'
CNS = '{http://www.gtk.org/introspection/c/1.0}'
GLIB = '{http://www.gtk.org/introspection/glib/1.0}'
XML = '{http://www.w3.org/XML/1998/namespace}'
_PFX = {GI: '', CNS: 'c:', GLIB: 'glib:', XML: 'xml:', '{http://www.gtk.org/introspection/doc/1.0}': 'doc:'}


# ============================================================================ the cast
def _fn(name, ret, params):
    return {'d': 'function', 'name': name, 'ret': ret, 'params': params}


def _fp(ret, params):
    return {'fp': {'ret': ret, 'params': params}}


def _struct(name, fields):
    return {'d': 'compound', 'kind': 'struct', 'tag': '_' + name, 'typedef': name, 'fields': fields}


CSTR = B('char', 1, True)
INT = B('int')

# symbol, return, parameters, owner ctype (container in the GIR), GIR name, role, extras
_FUNCS = [
    ('foo_do_a', INT, [('v', INT)], None, 'do_a', 'function', {'group': 'ns'}),
    ('foo_do_a_full', INT, [('v', INT), ('w', INT)], None, 'do_a_full', 'function', {'group': 'ns'}),
    ('foo_do_b', INT, [('v', INT)], None, 'do_b', 'function', {'group': 'ns'}),
    ('foo_init', VOID, [], None, 'init', 'function', {}),
    ('foo_take_rec', INT, [('r', T('FooRec', 1)), ('v', INT)], None, 'take_rec', 'function', {'method_ok': True}),
    ('foo_rec_get_x', INT, [('r', T('FooRec', 1))], 'FooRec', 'get_x', 'method', {'group': 'rec'}),
    ('foo_rec_get_y', INT, [('r', T('FooRec', 1))], 'FooRec', 'get_y', 'method', {'group': 'rec'}),
    ('foo_rec_copy', T('FooRec', 1), [('r', T('FooRec', 1))], 'FooRec', 'copy', 'method', {}),
    ('foo_rec_free', VOID, [('r', T('FooRec', 1))], 'FooRec', 'free', 'method', {}),
    ('foo_boxed_new', T('FooBoxed', 1), [], 'FooBoxed', 'new', 'ctor', {}),
    ('foo_boxed_make', T('FooBoxed', 1), [('v', INT)], 'FooBoxed', 'make', 'static', {'ctor_ok': True}),
    ('foo_boxed_copy', T('FooBoxed', 1), [('b', T('FooBoxed', 1))], 'FooBoxed', 'copy', 'method', {}),
    ('foo_boxed_free', VOID, [('b', T('FooBoxed', 1))], 'FooBoxed', 'free', 'method', {}),
    ('foo_union_get_i', INT, [('u', T('FooUnion', 1))], 'FooUnion', 'get_i', 'method', {}),
    ('foo_obj_new', T('FooObj', 1), [], 'FooObj', 'new', 'ctor', {}),
    ('foo_obj_create', T('FooObj', 1), [('v', INT)], 'FooObj', 'create', 'static', {'ctor_ok': True}),
    # returns its own type AND takes it first: a method by default, a constructor when annotated (constructor)
    ('foo_obj_derive', T('FooObj', 1), [('base', T('FooObj', 1)), ('n', INT)], 'FooObj', 'derive', 'method', {'ctor_ok': True}),
    ('foo_boxed_dup_from', T('FooBoxed', 1), [('b', T('FooBoxed', 1)), ('v', INT)], 'FooBoxed', 'dup_from', 'method', {'ctor_ok': True}),
    ('foo_obj_frob', VOID, [('self', T('FooObj', 1)), ('v', INT)], 'FooObj', 'frob', 'method', {'group': 'obj', 'flag': 'frob_invoker'}),
    ('foo_obj_frob_full', VOID, [('self', T('FooObj', 1)), ('v', INT), ('w', INT)], 'FooObj', 'frob_full', 'method', {'group': 'obj'}),
    ('foo_obj_do_act', VOID, [('self', T('FooObj', 1)), ('s', CSTR)], 'FooObj', 'do_act', 'method', {'group': 'obj'}),
    ('foo_obj_get_name', CSTR, [('self', T('FooObj', 1))], 'FooObj', 'get_name', 'method', {}),
    ('foo_obj_set_name', VOID, [('self', T('FooObj', 1)), ('name', CSTR)], 'FooObj', 'set_name', 'method', {}),
    ('foo_obj_fetch_name', CSTR, [('self', T('FooObj', 1))], 'FooObj', 'fetch_name', 'method', {}),
    ('foo_obj_put_name', VOID, [('self', T('FooObj', 1)), ('name', CSTR)], 'FooObj', 'put_name', 'method', {}),
    ('foo_obj_get_count', INT, [('self', T('FooObj', 1))], 'FooObj', 'get_count', 'method', {}),
    ('foo_obj_set_count', VOID, [('self', T('FooObj', 1)), ('count', INT)], 'FooObj', 'set_count', 'method', {}),
    ('foo_obj_emit_changed', VOID, [('self', T('FooObj', 1)), ('v', INT)], 'FooObj', 'emit_changed', 'method', {}),
    ('foo_obj_emit_renamed', INT, [('self', T('FooObj', 1))], 'FooObj', 'emit_renamed', 'method', {}),
    ('foo_obj_load_async', VOID, [('self', T('FooObj', 1)), ('c', T('GCancellable', 1)), ('cb', T('GAsyncReadyCallback')),
                                  ('user_data', T('gpointer'))], 'FooObj', 'load_async', 'method', {}),
    ('foo_obj_load_finish', T('gboolean'), [('self', T('FooObj', 1)), ('res', T('GAsyncResult', 1)), ('error', T('GError', 2))],
     'FooObj', 'load_finish', 'method', {}),
    ('foo_obj_load', T('gboolean'), [('self', T('FooObj', 1)), ('c', T('GCancellable', 1)), ('error', T('GError', 2))],
     'FooObj', 'load', 'method', {}),
    ('foo_obj_read_begin', VOID, [('self', T('FooObj', 1)), ('cb', T('GAsyncReadyCallback')), ('user_data', T('gpointer'))],
     'FooObj', 'read_begin', 'method', {}),
    ('foo_obj_read_end', INT, [('self', T('FooObj', 1)), ('res', T('GAsyncResult', 1)), ('error', T('GError', 2))],
     'FooObj', 'read_end', 'method', {}),
    ('foo_obj_read_now', INT, [('self', T('FooObj', 1)), ('n', INT), ('error', T('GError', 2))], 'FooObj', 'read_now', 'method', {}),
    ('foo_sub_obj_get_max_size', INT, [('self', T('FooSubObj', 1))], 'FooSubObj', 'get_max_size', 'method', {}),
    ('foo_sub_obj_set_max_size', VOID, [('self', T('FooSubObj', 1)), ('v', INT)], 'FooSubObj', 'set_max_size', 'method', {}),
    ('foo_iface_ping', VOID, [('self', T('FooIface', 1))], 'FooIface', 'ping', 'method', {}),
    ('foo_iface_get_label', CSTR, [('self', T('FooIface', 1))], 'FooIface', 'get_label', 'method', {}),
]

# class ctype -> description (props: name, gtype, flags; signals: name, return, [param gtypes])
_CLASSES = {
    'FooObj': {
        'tag': 'class', 'struct': 'FooObjClass', 'parents': 'GObject', 'get_type': 'foo_obj_get_type',
        'props': [('name', 'gchararray', 3), ('count', 'gint', 3), ('active', 'gboolean', 1), ('label', 'gchararray', 3)],
        'signals': [('changed', 'void', ['gint']), ('frob', 'void', []), ('renamed', 'void', [])],
        'fields': [('parent_instance', T('GObject')), ('count', INT), ('label', B('char', 1))],
        'slots': [('frob', VOID, [('v', INT)]), ('slot', INT, []), ('act', VOID, [('s', CSTR)]), ('plain', VOID, [])],
        'struct_head': ('parent_class', T('GObjectClass')),
    },
    'FooSubObj': {
        'tag': 'class', 'struct': 'FooSubObjClass', 'parents': 'FooObj,GObject', 'get_type': 'foo_sub_obj_get_type',
        'props': [('name', 'gchararray', 3), ('max-size', 'gint', 3)],
        'signals': [('changed', 'void', [])],
        'fields': [('parent_instance', T('FooObj'))],
        'slots': [],
        'struct_head': ('parent_class', T('FooObjClass')),
    },
    'FooIface': {
        'tag': 'interface', 'struct': 'FooIfaceInterface', 'parents': None, 'get_type': 'foo_iface_get_type',
        'props': [('label', 'gchararray', 3)],
        'signals': [('ping', 'void', [])],
        'fields': None,
        'slots': [('ping', VOID, [])],
        'struct_head': ('g_iface', T('GTypeInterface')),
    },
}
_RECORDS = [  # ctype, kind, fields
    ('FooRec', 'record', [('x', INT), ('y', INT), ('name', B('char', 1))]),
    ('FooBoxed', 'boxed', [('refs', INT), ('name', B('char', 1))]),
    ('FooLone', 'record', [('v', INT)]),
    ('FooUnion', 'union', [('i', INT), ('d', B('double'))]),
]
_ENUMS = [('FooKind', False, ['FOO_KIND_A', 'FOO_KIND_B', 'FOO_KIND_AB']), ('FooFlags', True, ['FOO_FLAGS_X', 'FOO_FLAGS_Y'])]
_CONSTS = [('FOO_MAX', {'k': 'int', 'lit': 10}), ('FOO_MAX_LEN', {'k': 'int', 'lit': 64}), ('FOO_NAME', {'k': 'str', 's': 'foo'})]
_CALLBACKS = [('FooCallback', VOID, [('v', INT), ('user_data', T('gpointer'))]), ('FooNotify', VOID, [])]

FLAG_NAMES = ('frob_invoker', 'sig_frob', 'sub_name')
NESTED_FORMS = ('prop', 'signal', 'field', 'vfunc', 'member')
ASYNC_FAMILY = ('foo_obj_load_async', 'foo_obj_read_begin', 'foo_obj_load_finish', 'foo_obj_load', 'foo_obj_read_end', 'foo_obj_read_now')
_WORLDS = {}


def world(flags):
    key = tuple(bool(flags.get(f)) for f in FLAG_NAMES)
    if key in _WORLDS:
        return _WORLDS[key]
    fl = dict(zip(FLAG_NAMES, key))
    decls = []
    elems = []

    def add(ident, kind, form, **kw):
        e = dict(kw, id=ident, kind=kind, form=form)
        elems.append(e)
        return e

    for name, val in _CONSTS:
        decls.append({'d': 'const', 'name': name, 'value': val})
        add(name, 'constant', 'const')
    for name, isflags, members in _ENUMS:
        decls.append({'d': 'enum', 'name': name, 'tag': None, 'flags': isflags,
                      'members': [{'name': m, 'value': (1 << i) if isflags else None, 'shift': isflags} for i, m in enumerate(members)]})
        add(name, 'flags' if isflags else 'enum', 'type', ctype=name)
        for m in members:
            add(m, 'member', 'member', owner=name)
    for ctype, kind, fields in _RECORDS:
        decls.append({'d': 'compound', 'kind': 'union' if kind == 'union' else 'struct', 'tag': '_' + ctype, 'typedef': ctype,
                      'fields': [{'name': n, 'type': t} for n, t in fields]})
        add(ctype, kind, 'type', ctype=ctype)
        for n, t in fields:
            add('%s.%s' % (ctype, n), 'field', 'field', owner=ctype, name=n, cbfield=False)
    for name, ret, ps in _CALLBACKS:
        decls.append({'d': 'callback', 'name': name, 'ret': ret, 'params': [param(n, t) for n, t in ps]})
        add(name, 'callback', 'type', ctype=name)
    classes = {}
    for ctype, cd in _CLASSES.items():
        props = [p for p in cd['props'] if not (ctype == 'FooSubObj' and p[0] == 'name' and not fl['sub_name'])]
        sigs = [s for s in cd['signals'] if not (ctype == 'FooObj' and s[0] == 'frob' and not fl['sig_frob'])]
        decls.append({'d': 'compound', 'kind': 'struct', 'tag': '_' + ctype, 'typedef': ctype, 'fields': None})
        decls.append({'d': 'compound', 'kind': 'struct', 'tag': '_' + cd['struct'], 'typedef': cd['struct'], 'fields': None})
        add(ctype, cd['tag'], 'type', ctype=ctype)
        add(cd['struct'], 'classstruct', 'type', ctype=cd['struct'])
        if cd['fields'] is not None:
            decls.append({'d': 'compound', 'kind': 'struct', 'tag': '_' + ctype, 'typedef': None,
                          'fields': [{'name': n, 'type': t} for n, t in cd['fields']]})
            for n, t in cd['fields']:
                add('%s.%s' % (ctype, n), 'field', 'field', owner=ctype, name=n, cbfield=False)
        sfields = [{'name': cd['struct_head'][0], 'type': cd['struct_head'][1]}]
        add('%s.%s' % (cd['struct'], cd['struct_head'][0]), 'field', 'field', owner=cd['struct'], name=cd['struct_head'][0], cbfield=False)
        for sname, ret, ps in cd['slots']:
            sfields.append({'name': sname, 'type': _fp(ret, [param('self', T(ctype, 1))] + [param(n, t) for n, t in ps])})
            add('%s.%s' % (cd['struct'], sname), 'field', 'field', owner=cd['struct'], name=sname, cbfield=True, slot_of=ctype)
            add('%s::%s' % (cd['struct'], sname), 'vfunc', 'vfunc', owner=ctype, struct=cd['struct'], name=sname)
        if ctype == 'FooObj':
            # a function pointer whose first parameter is not the instance: a field, never a virtual method
            sfields.append({'name': 'helper', 'type': _fp(INT, [param('v', INT)])})
            add('FooObjClass.helper', 'field', 'field', owner='FooObjClass', name='helper', cbfield=True, slot_of=None)
        decls.append({'d': 'compound', 'kind': 'struct', 'tag': '_' + cd['struct'], 'typedef': None, 'fields': sfields})
        for p in props:
            add('%s:%s' % (ctype, p[0]), 'property', 'prop', owner=ctype, name=p[0], gtype=p[1])
        for s in sigs:
            add('%s::%s' % (ctype, s[0]), 'signal', 'signal', owner=ctype, name=s[0], nparams=len(s[2]), ret=s[1])
        classes[ctype] = {'tag': cd['tag'], 'struct': cd['struct'], 'props': [p[0] for p in props], 'signals': [s[0] for s in sigs],
                          'slots': [s[0] for s in cd['slots']], 'methods': {}, 'propdefs': props, 'sigdefs': sigs,
                          'parents': cd['parents'], 'get_type': cd['get_type']}
    for gt in ('foo_boxed_get_type',) + tuple(cd['get_type'] for cd in _CLASSES.values()):
        decls.append(_fn(gt, T('GType'), []))
    funcs = {}
    for sym, ret, ps, owner, gname, role, extra in _FUNCS:
        if extra.get('flag') and not fl[extra['flag']]:
            continue
        decls.append(_fn(sym, ret, [param(n, t) for n, t in ps]))
        e = add(sym, 'function', 'symbol', sym=sym, owner=owner, name=gname, role=role, group=extra.get('group'),
                ctor_ok=bool(extra.get('ctor_ok')) or role == 'ctor', method_ok=bool(extra.get('method_ok')) or role == 'method',
                nparams=len(ps) - (1 if role == 'method' else 0), void=(ret is VOID))
        funcs[sym] = e
        if owner in classes and role == 'method':
            classes[owner]['methods'][gname] = sym
    dump = ['<?xml version="1.0"?>', '<dump>']
    for ctype, ci in classes.items():
        if ci['tag'] == 'class':
            dump.append('<class name="%s" get-type="%s" parents="%s">' % (ctype, ci['get_type'], ci['parents']))
            if ctype == 'FooObj':
                dump.append('<implements name="FooIface"/>')
        else:
            dump.append('<interface name="%s" get-type="%s"><prerequisite name="GObject"/>' % (ctype, ci['get_type']))
        for n, gt, pf in ci['propdefs']:
            dump.append('<property name="%s" type="%s" flags="%d"/>' % (n, gt, pf))
        for n, r, ps in ci['sigdefs']:
            dump.append('<signal name="%s" return="%s" when="last">%s</signal>' % (n, r, ''.join('<param type="%s"/>' % p for p in ps)))
        dump.append('</class>' if ci['tag'] == 'class' else '</interface>')
    dump.append('<boxed name="FooBoxed" get-type="foo_boxed_get_type"/>')
    dump.append('</dump>')
    W = {'flags': fl, 'decls': decls, 'dump': '\n'.join(dump) + '\n', 'elems': elems, 'idents': dict((e['id'], e) for e in elems),
         'classes': classes, 'funcs': funcs,
         'groups': {'ns': ['foo_do_a', 'foo_do_a_full', 'foo_do_b'], 'rec': ['foo_rec_get_x', 'foo_rec_get_y'],
                    'obj': [s for s in ('foo_obj_frob', 'foo_obj_frob_full', 'foo_obj_do_act') if s in funcs]}}
    if len(W['idents']) != len(elems):
        raise AssertionError('duplicate identifiers in the cast')
    _WORLDS[key] = W
    return W


# ============================================================================ vocabulary and applicability
GENERIC = ('skip', 'attributes')
ALL_ANNS = ['skip', 'rename-to', 'constructor', 'method', 'value', 'attributes', 'foreign', 'get-property', 'set-property',
            'getter', 'setter', 'default-value', 'emitter', 'virtual', 'finish-func', 'sync-func', 'async-func', 'ref-func',
            'unref-func', 'set-value-func', 'get-value-func', 'copy-func', 'free-func', 'type', 'transfer']
CLASS_FUNCS = {'ref-func': 'glib:ref-func', 'unref-func': 'glib:unref-func', 'set-value-func': 'glib:set-value-func',
               'get-value-func': 'glib:get-value-func'}
REC_FUNCS = {'copy-func': 'copy-function', 'free-func': 'free-function'}
ASYNC_ATTRS = {'finish-func': 'glib:finish-func', 'sync-func': 'glib:sync-func', 'async-func': 'glib:async-func'}
PROP_ATTRS = {'setter': 'setter', 'getter': 'getter', 'default-value': 'default-value'}


def applicable(ann, e, W):
    """'yes' (documented for this element kind: the direct clause applies), 'no' (the documentation restricts the
    annotation to other kinds: it must change nothing) or 'undecided' (locality only)."""
    k = e['kind']
    if ann in GENERIC:
        return 'yes'
    if ann == 'rename-to':
        return 'yes' if k == 'function' else 'undecided'       # "identifier": not restricted by the documentation
    if ann == 'constructor':
        if k != 'function':
            return 'no'
        return 'yes' if e['ctor_ok'] else 'undecided'
    if ann == 'method':
        if k != 'function':
            return 'no'
        return 'yes' if e['method_ok'] else 'undecided'
    if ann == 'virtual':
        if k != 'function':
            return 'no'
        if e['role'] == 'method' and e['owner'] in W['classes']:
            return 'yes'
        return 'undecided'          # constructors / static / plain functions: "this function is the invoker" is not excluded
    if ann in ('set-property', 'get-property'):
        # giannotations.rst: "identifier (only applies to methods)"; gir-1.2.rnc: attribute of <method> only
        if k == 'function' and e['role'] == 'method' and e['owner'] in W['classes']:
            return 'yes'
        if k == 'function' and e['role'] == 'method':
            return 'undecided'      # a method of a record: a method, but there is no property to name
        if k == 'function' and e['method_ok']:
            return 'undecided'      # may be turned into a method by (method) in the same block
        return 'no'
    if ann in ASYNC_ATTRS:
        return 'yes' if k in ('function', 'vfunc', 'callback') else 'no'
    if ann in CLASS_FUNCS:
        return 'yes' if k == 'class' else 'no'
    if ann in REC_FUNCS:
        return 'yes' if k in ('record', 'boxed', 'union', 'classstruct') else 'no'
    if ann == 'foreign':
        if k == 'record':
            return 'yes'
        return 'undecided' if k in ('boxed', 'union', 'classstruct') else 'no'
    if ann == 'value':
        return 'yes' if k == 'constant' else 'no'
    if ann in PROP_ATTRS or ann == 'transfer':
        return 'yes' if k == 'property' else 'no'
    if ann == 'type':
        if k == 'property':
            return 'yes'
        if k == 'field':
            return 'undecided' if e['cbfield'] else 'yes'
        return 'no'
    if ann == 'emitter':
        # the table says "identifier (only applies to methods)" next to "This signal is emitted by the given method"
        if k == 'signal':
            return 'yes'
        return 'undecided' if k == 'function' else 'no'
    raise AssertionError(ann)


_APPLICABLE_BY_KIND = {}


def _anns_for(e, W):
    key = (e['id'], tuple(sorted(W['flags'].items())))
    if key not in _APPLICABLE_BY_KIND:
        _APPLICABLE_BY_KIND[key] = [a for a in ALL_ANNS if applicable(a, e, W) != 'no']
    return _APPLICABLE_BY_KIND[key]


# ============================================================================ generator
TYPE_VALUES = {'utf8': 'utf8', 'gint': 'gint', 'Foo.Rec': 'Rec', 'GObject.Object': 'GObject.Object', 'gboolean': 'gboolean'}
WORDS = ['Does things.', 'Short text.', 'Use the other one instead.', 'Line one.\nLine two of the same paragraph.',
         'Text with <markup> & "quotes".', 'Frobnicates the object, tastefully.']
TAG_TEXT = [None, None, 'some more words', 'Use foo_other() instead', 'because of <reasons> & such']
VERSIONS = ['1.2', '0.10', '2.0.1', '3.99']


def _class_of(e, W):
    o = e.get('owner')
    if o in W['classes']:
        return o
    for c, ci in W['classes'].items():
        if ci['struct'] == o:
            return c
    return None


@st.composite
def _ann_value(draw, ann, e, W):
    cls = _class_of(e, W) or 'FooObj'
    ci = W['classes'][cls]
    if ann in ('skip', 'constructor', 'method', 'foreign'):
        return None
    if ann == 'rename-to':
        grp = W['groups'].get(e.get('group') or '', [])
        cands = [s for s in grp if s != e['id']]
        return draw(st.sampled_from(cands + cands + ['foo_missing_fn']))
    if ann == 'value':
        return draw(st.sampled_from(['100', '7', '0x20', 'text']))
    if ann == 'attributes':
        return draw(st.sampled_from([{'foo.key': 'v1'}, {'a.b': 'c', 'd.e': 'f'}, {'org.x.y': '12'}]))
    if ann in ('get-property', 'set-property'):
        return draw(st.sampled_from(ci['props'] + ci['props'] + ['nope']))
    if ann in ('getter', 'setter', 'emitter'):
        return draw(st.sampled_from(sorted(ci['methods']) * 2 + ['nope']))
    if ann == 'default-value':
        return draw(st.sampled_from(['42', 'hello', 'TRUE']))
    if ann == 'virtual':
        return draw(st.sampled_from((ci['slots'] or ['frob']) * 3 + ['nope']))
    if ann == 'finish-func':         # mostly names that contradict the X_async/X_finish naming heuristic
        return draw(st.sampled_from(['read_end', 'nope_finish', 'read_end', 'load_finish', 'read_now']))
    if ann == 'sync-func':
        return draw(st.sampled_from(['read_now', 'load', 'other_sync', 'read_end']))
    if ann == 'async-func':
        return draw(st.sampled_from(['read_begin', 'load_async', 'other_async']))
    if ann in CLASS_FUNCS or ann in REC_FUNCS:
        return draw(st.sampled_from(['foo_rec_copy', 'foo_rec_free', 'foo_boxed_copy', 'foo_boxed_free', 'foo_obj_ref', 'foo_missing_fn']))
    if ann == 'type':
        return draw(st.sampled_from(sorted(TYPE_VALUES)))
    if ann == 'transfer':
        return draw(st.sampled_from(['none', 'full', 'floating']))
    raise AssertionError(ann)


def _near_misses(e, W):
    """(how, identifier) candidates derived from a real element; identifiers that happen to be real are dropped."""
    i = e['id']
    out = []
    f = e['form']
    if f in ('prop', 'signal', 'field', 'vfunc'):
        owner = i.split(':')[0].split('.')[0]
        name = e['name']
        for sep, how in ((':', 'as-property'), ('::', 'as-signal'), ('.', 'as-field')):
            out.append(('form:' + how, owner + sep + name))
        for other in ('FooObj', 'FooSubObj', 'FooIface', 'FooObjClass', 'FooSubObjClass', 'FooIfaceInterface', 'FooRec', 'FooBoxed'):
            if other != owner:
                sep = {'prop': ':', 'signal': '::', 'field': '.', 'vfunc': '::'}[f]
                out.append(('other-owner', other + sep + name))
        sep = {'prop': ':', 'signal': '::', 'field': '.', 'vfunc': '::'}[f]
        out.append(('gi-name', owner[3:] + sep + name))
        out.append(('prefix', owner + sep + name[:-1]))
        out.append(('suffix', owner + sep + name + '2'))
        out.append(('prefix', owner[:-1] + sep + name))
        out.append(('case', owner + sep + name.capitalize()))
        out.append(('case', owner.lower() + sep + name))
        if f == 'vfunc':
            out.append(('vfunc-via-instance', e['owner'] + '::' + name))
            out.append(('vfunc-as-symbol', name))
    else:
        out.append(('prefix', i[:-1]))
        out.append(('prefix', i[1:]))
        out.append(('suffix', i + '_x' if i.islower() else i + 'X'))
        out.append(('case', i.swapcase()))
        out.append(('case', i[0].swapcase() + i[1:]))
        if f == 'symbol':
            out.append(('prefix', i.rsplit('_', 1)[0]))
            out.append(('gi-name', e['name']))
            if e['owner']:
                out.append(('form:as-signal', e['owner'] + '::' + e['name']))
                out.append(('form:as-field', e['owner'] + '.' + e['name']))
        elif f in ('member', 'const'):
            out.append(('prefix', i.rsplit('_', 1)[0]))
            out.append(('gi-name', i.split('_', 1)[1]))
            if f == 'member':
                out.append(('form:as-field', e['owner'] + '.' + i))
        else:
            out.append(('gi-name', i[3:]))
            out.append(('form:as-property', i + ':' + i))
    return [(how, x) for how, x in out if x not in W['idents'] and len(x) > 1]


# annotations on an element kind the documentation excludes, where a mix-up is plausible
CONFUSIONS = [('value', ['member', 'enum', 'flags']), ('value', ['property']), ('value', ['field', 'function']), ('emitter', ['property', 'vfunc', 'field']),
              ('setter', ['signal', 'field']), ('getter', ['signal', 'function']), ('default-value', ['field', 'constant', 'signal']),
              ('transfer', ['field', 'signal', 'function']), ('type', ['signal', 'constant', 'member', 'function']),
              ('copy-func', ['class', 'interface', 'enum']), ('free-func', ['class', 'callback']), ('ref-func', ['record', 'boxed', 'interface']),
              ('unref-func', ['record', 'union']), ('set-value-func', ['boxed', 'interface']), ('get-value-func', ['record', 'enum']),
              ('foreign', ['class', 'enum', 'function', 'property']), ('virtual', ['property', 'signal', 'vfunc']),
              ('constructor', ['record', 'class', 'property']),
              ('method', ['signal', 'property', 'callback']), ('finish-func', ['signal', 'property', 'class']),
              ('set-property', ['property', 'signal', 'field']), ('get-property', ['property', 'vfunc'])]
_KIND_WEIGHTS = [('property', 5), ('signal', 4), ('field', 4), ('vfunc', 4), ('member', 2), ('constant', 2), ('function', 8), ('enum', 1),
                 ('flags', 1), ('record', 2), ('boxed', 1), ('union', 1), ('callback', 1), ('class', 2), ('interface', 1), ('classstruct', 1)]
_KINDS = [f for f, w in _KIND_WEIGHTS for _ in range(w)]


@st.composite
def _block(draw, W, mode):
    first = None          # annotation drawn before the element (evens out the annotation frequencies)
    if mode == 'nested':
        form = draw(st.sampled_from(['prop', 'prop', 'signal', 'field', 'vfunc', 'vfunc', 'member']))
        cands = [e for e in W['elems'] if e['form'] == form]
    elif mode == 'invoker':
        cands = [e for e in W['elems'] if e['kind'] == 'function' and e['role'] == 'method' and e['owner'] in W['classes']
                 and (e['name'] in W['classes'][e['owner']]['slots'] or e['owner'] == 'FooObj')]
        hit = [e for e in cands if e['name'] in W['classes'][e['owner']]['slots']]
        if hit and draw(st.booleans()):
            cands = hit
        else:
            first = 'virtual'
    elif mode == 'async':
        first = draw(st.sampled_from(sorted(ASYNC_ATTRS)))
        fam = ASYNC_FAMILY[:2] if (first == 'finish-func' and draw(st.booleans())) else ASYNC_FAMILY
        cands = [W['funcs'][f] for f in fam]
    elif mode == 'confuse':
        first, kinds = draw(st.sampled_from(CONFUSIONS))
        kind = draw(st.sampled_from(kinds))
        cands = [e for e in W['elems'] if e['kind'] == kind]
    elif mode == 'any' and draw(st.integers(0, 9)) < 6:
        first = draw(st.sampled_from(ALL_ANNS))
        cands = [e for e in W['elems'] if applicable(first, e, W) == 'yes']
        if first == 'rename-to' and draw(st.integers(0, 3)) > 0:
            cands = [e for e in cands if e.get('group')]
        if first in ASYNC_ATTRS and draw(st.integers(0, 2)) > 0:
            cands = [e for e in cands if e['id'] in ASYNC_FAMILY]
            if first == 'finish-func' and draw(st.booleans()):
                cands = [e for e in cands if e['id'] in ASYNC_FAMILY[:2]]      # the ones the finish heuristic looks at
        if draw(st.integers(0, 4)) == 0:
            cands = W['elems']
        kinds = sorted(set(e['kind'] for e in cands))
        kind = draw(st.sampled_from(kinds))
        cands = [e for e in cands if e['kind'] == kind]
    else:
        kind = draw(st.sampled_from(_KINDS))
        cands = [e for e in W['elems'] if e['kind'] == kind]
    e = cands[draw(st.integers(0, len(cands) - 1))]
    near = mode == 'near' or (mode == 'any' and draw(st.integers(0, 4)) == 0)
    ident, origin = e['id'], 'real'
    if near:
        nm = _near_misses(e, W)
        hows = sorted(set(h for h, x in nm))
        hows = hows + [h for h in hows if h.startswith('form:') or h in ('other-owner', 'vfunc-via-instance')] * 2 \
            + [h for h in hows if h == 'vfunc-via-instance'] * 3
        how = draw(st.sampled_from(hows))
        nm = [x for h, x in nm if h == how]
        ident = nm[draw(st.integers(0, len(nm) - 1))]
        origin = 'near:' + how
    n = draw(st.sampled_from([0, 1, 1, 1, 2, 2, 3]))
    anns = []
    seen = set()
    if first is not None:
        anns.append([first, draw(_ann_value(first, e, W))])
        seen.add(first)
        n = max(0, n - 1)
    for _ in range(n):
        r = draw(st.integers(0, 9))
        pool = ALL_ANNS
        if r < 5:
            pool = [a for a in _anns_for(e, W) if a not in GENERIC] or list(GENERIC)
        elif r < 7:
            pool = list(GENERIC)
        a = draw(st.sampled_from(pool))
        if a in seen:
            continue
        seen.add(a)
        anns.append([a, draw(_ann_value(a, e, W))])
    b = {'ident': ident, 'origin': origin, 'of': e['id'], 'anns': anns, 'desc': None, 'since': None, 'deprecated': None, 'stability': None}
    if draw(st.integers(0, 2)) == 0:
        b['desc'] = draw(st.sampled_from(WORDS))
    if draw(st.integers(0, 2)) == 0:
        b['since'] = [draw(st.sampled_from(VERSIONS)), draw(st.sampled_from(TAG_TEXT))]
    if draw(st.integers(0, 2)) == 0:
        v = draw(st.sampled_from(VERSIONS + [None]))
        t = draw(st.sampled_from(TAG_TEXT))
        if v is None and t is None:
            t = 'Use something else'
        b['deprecated'] = [v, t]
    if draw(st.integers(0, 3)) == 0:
        b['stability'] = [draw(st.sampled_from(['Stable', 'Unstable', 'Private'])), draw(st.sampled_from(TAG_TEXT))]
    if not (anns or b['desc'] or b['since'] or b['deprecated'] or b['stability']):
        b['desc'] = 'Documented.'
    return b


@st.composite
def cases(draw):
    flags = dict((f, draw(st.booleans())) for f in FLAG_NAMES)
    W = world(flags)
    n = draw(st.integers(2, 7))
    modes = ['nested', 'near'] + ['any'] * (n - 2)
    if draw(st.integers(0, 3)) == 0:
        modes.append('invoker')
    if draw(st.integers(0, 2)) == 0:
        modes.append('confuse')
    if draw(st.integers(0, 3)) == 0:
        modes.append('async')
    blocks = []
    used = set()
    for m in modes:
        b = draw(_block(W, m))
        if b['ident'] in used:
            continue
        used.add(b['ident'])
        blocks.append(b)
    if draw(st.integers(0, 4)) == 0:
        # two functions of one group ask to be renamed to the SAME third one: the first claim stands, the second is
        # refused with a warning, and shadows / shadowed-by must still point at each other
        grps = [g for g in W['groups'].values() if len([s for s in g if s not in used]) >= 2 and len(g) >= 3]
        if grps:
            g = grps[draw(st.integers(0, len(grps) - 1))]
            free = [s for s in g if s not in used]
            a, b2 = free[0], free[1]
            tgt = [s for s in g if s not in (a, b2)][draw(st.integers(0, len(g) - 3))]
            for s_ in (a, b2):
                blocks.append({'ident': s_, 'origin': 'real', 'of': s_, 'anns': [['rename-to', tgt]], 'desc': None, 'since': None,
                               'deprecated': None, 'stability': None})
                used.add(s_)
    order = draw(st.permutations(list(range(len(blocks)))))
    return {'flags': flags, 'blocks': [blocks[i] for i in order]}


# ============================================================================ rendering and running
def render(b):
    head = ' * %s:' % b['ident']
    for a, v in b['anns']:
        if v is None:
            head += ' (%s)' % a
        elif isinstance(v, dict):
            head += ' (%s %s)' % (a, ' '.join('%s=%s' % kv for kv in sorted(v.items())))
        else:
            head += ' (%s %s)' % (a, v)
    lines = ['/**', head]
    if b['desc']:
        lines.append(' *')
        lines.extend(' * ' + l for l in b['desc'].split('\n'))
    tags = []
    for tag, key in (('Since', 'since'), ('Deprecated', 'deprecated'), ('Stability', 'stability')):
        if b.get(key):
            v, t = b[key]
            tags.append(' * %s: %s' % (tag, ': '.join(x for x in (v, t) if x)))
    if tags:
        lines.append(' *')
        lines.extend(tags)
    lines.append(' */')
    return '\n'.join(lines)


class _InprocDumper(object):
    """Stands in for `subprocess` inside giscanner.gdumpparser: does in-process what the shell "introspection
    binary" of vlib.pipeline does (spawning /bin/sh costs 200-400 ms on this VM; the dump program is not under test)."""
    CalledProcessError = subprocess.CalledProcessError

    @staticmethod
    def check_call(args, stdout=None, stderr=None):
        spec = args[-1]
        if not spec.startswith('--introspect-dump=') or args[0] != '/bin/sh':
            raise AssertionError('unexpected dump command %r' % (args,))
        inp, outp = spec[len('--introspect-dump='):].split(',', 1)
        shutil.copyfile(inp, args[-2] + '.functions')
        shutil.copyfile(args[-2], outp)
        return 0


def _run(W, comments, ctx, what):
    pipeline.M()
    sys.modules['giscanner.gdumpparser'].subprocess = _InprocDumper
    case = {'ns': NS, 'includes': ['Gio-2.0'], 'decls': W['decls'], 'comments': comments, 'dump': W['dump']}
    try:
        res = pipeline.run(case, ctx.mkscratch())
    except Exception as e:
        raise Violation(crash_clause(e), '%r (%s)\n%s' % (e, what, '\n'.join(c[0] for c in comments)))
    if res.fatal is not None:
        raise Violation('fatal-on-valid-input', '%s (%s)\n%s' % (res.fatal[:300], what, '\n'.join(c[0] for c in comments)))
    return res


# ============================================================================ GIR index and diff
CALLABLE_TAGS = ('function', 'method', 'constructor', 'virtual-method', 'function-inline', 'method-inline')
KEYED = set(CALLABLE_TAGS) | set(['property', 'field', 'glib:signal', 'member', 'callback', 'record', 'union'])


def _short(name):
    if name.startswith('{'):
        ns, local = name[1:].split('}')
        return _PFX.get('{%s}' % ns, '{%s}' % ns) + local
    return name


def _ser(el):
    tag = _short(el.tag)
    if tag == 'source-position':
        return ''
    attrs = ' '.join('%s=%r' % (_short(k), v) for k, v in sorted(el.attrib.items()))
    text = el.text if (el.text and el.text.strip()) else ''
    return '<%s %s>%s%s</%s>' % (tag, attrs, text, ''.join(_ser(c) for c in el), tag)


class Entry(object):
    __slots__ = ('path', 'tag', 'attrs', 'kids', 'refs', 'el', 'chain')

    def __repr__(self):
        return '/'.join('%s:%s' % p for p in self.path)


def _refs(el, out):
    for x in el.iter():
        if x.tag in (GI + 'type', GI + 'array') and x.get('name'):
            out.add(x.get('name'))


def index(gir):
    root = ET.fromstring(gir)
    ns = root.find(GI + 'namespace')
    entries = {}

    def visit(el, chain, path):
        tag = _short(el.tag)
        attrs = dict((_short(k), v) for k, v in el.attrib.items())
        ident = attrs.get('c:identifier') or attrs.get('name') or attrs.get('glib:name') or '?'
        p = path + ((tag, ident),)
        n = 2
        while p in entries:
            p = path + ((tag, '%s#%d' % (ident, n)),)
            n += 1
        e = Entry()
        e.path, e.tag, e.attrs, e.el = p, tag, attrs, el
        e.chain = chain + [(tag, attrs)]
        e.kids = []
        e.refs = set()
        entries[p] = e
        for ch in el:
            t = _short(ch.tag)
            if t == 'source-position':
                continue
            if t in KEYED:
                visit(ch, e.chain, p)
            else:
                e.kids.append((t, _ser(ch)))
                _refs(ch, e.refs)

    for el in ns:
        visit(el, [], ())
    return entries


def deep_refs(entries, e):
    out = set()
    n = len(e.path)
    for p, x in entries.items():
        if p[:n] == e.path:
            out |= x.refs
    return out


def diff(A, Bx):
    """[(path, entry_a, entry_b, attr_names|None, kid_tags|None)]; None = the element exists on one side only."""
    out = []
    for p in sorted(set(A) | set(Bx)):
        a, b = A.get(p), Bx.get(p)
        if a is None or b is None:
            out.append((p, a, b, None, None))
            continue
        if a.attrs == b.attrs and a.kids == b.kids:
            continue
        an = set(k for k in set(a.attrs) | set(b.attrs) if a.attrs.get(k) != b.attrs.get(k))
        kt = set()
        for t in set(t for t, s in a.kids) | set(t for t, s in b.kids):
            if [s for tt, s in a.kids if tt == t] != [s for tt, s in b.kids if tt == t]:
                kt.add(t)
        out.append((p, a, b, an, kt))
    return out


# ---- predicates over Entry.chain
def _is_type(ta, ctype):
    tag, a = ta
    return tag != 'constant' and tag not in CALLABLE_TAGS and (a.get('c:type') == ctype or a.get('glib:type-name') == ctype)


def p_cid(sym):
    return lambda e: any((t in CALLABLE_TAGS or t == 'member') and a.get('c:identifier') == sym for t, a in e.chain)


def p_type(ctype, deep):
    return lambda e: _is_type(e.chain[0], ctype) and (deep or len(e.chain) == 1)


def p_const(name):
    return lambda e: len(e.chain) == 1 and e.tag == 'constant' and e.attrs.get('c:type') == name


def p_child(ctype, tag, name, deep=True):
    def pred(e):
        if len(e.chain) < 2 or not _is_type(e.chain[0], ctype):
            return False
        t, a = e.chain[1]
        return t == tag and a.get('name') == name and (deep or len(e.chain) == 2)
    return pred


def p_callable_any():
    return lambda e: e.tag in CALLABLE_TAGS


def p_method_of(ctype):
    return lambda e: len(e.chain) == 2 and _is_type(e.chain[0], ctype) and e.tag == 'method'


def self_pred(e, W):
    """Predicate selecting exactly the element(s) the identifier of world element e documents (not their descendants)."""
    f = e['form']
    if f == 'symbol':
        return lambda x: (x.tag in CALLABLE_TAGS) and x.attrs.get('c:identifier') == e['id']
    if f == 'member':
        return lambda x: x.tag == 'member' and x.attrs.get('c:identifier') == e['id']
    if f == 'const':
        return p_const(e['id'])
    if f == 'type':
        return p_type(e['ctype'], False)
    if f == 'prop':
        return p_child(e['owner'], 'property', e['name'], False)
    if f == 'signal':
        return p_child(e['owner'], 'glib:signal', e['name'], False)
    if f == 'field':
        return p_child(e['owner'], 'field', e['name'], False)
    if f == 'vfunc':
        return p_child(e['owner'], 'virtual-method', e['name'], False)
    raise AssertionError(f)


def own_pred(e, W, deep_type):
    f = e['form']
    if f == 'symbol' or f == 'member':
        return p_cid(e['id'])
    if f == 'const':
        return p_const(e['id'])
    if f == 'type':
        return p_type(e['ctype'], deep_type)
    tag = {'prop': 'property', 'signal': 'glib:signal', 'field': 'field', 'vfunc': 'virtual-method'}[f]
    return p_child(e['owner'], tag, e['name'], True)


# ============================================================================ the oracle
def _ann(b, name):
    for a, v in b['anns']:
        if a == name:
            return v
    return None


def _has(b, name):
    return any(a == name for a, v in b['anns'])


def _text(entry, tag):
    x = entry.el.find(GI + tag)
    return None if x is None else (x.text or '')


def _gir_name_of_type(ctype):
    return ctype[3:]


def _text_is(tag, val):
    return lambda x: None if _text(x, tag) == val else '<%s> is %r, the block says %r' % (tag, _text(x, tag), val)


def _expected_generic(b):
    """[(clause, check(entry) -> problem or None)] for the parts of a block every documentable element honours."""
    out = []
    if b['desc']:
        out.append(('doc', _text_is('doc', b['desc'])))
    if _has(b, 'skip'):
        out.append(('skip', _attr_is('introspectable', '0')))
    if b['since']:
        out.append(('since', _attr_is('version', b['since'][0])))
        if b['since'][1]:
            out.append(('since-text', _text_is('doc-version', b['since'][1])))
    if b['deprecated']:
        out.append(('deprecated', _attr_is('deprecated', '1')))
        if b['deprecated'][0]:
            out.append(('deprecated-version', _attr_is('deprecated-version', b['deprecated'][0])))
        if b['deprecated'][1]:
            out.append(('deprecated-text', _text_is('doc-deprecated', b['deprecated'][1])))
    if b['stability']:
        out.append(('stability', _attr_is('stability', b['stability'][0])))
        if b['stability'][1]:
            out.append(('stability-text', _text_is('doc-stability', b['stability'][1])))
    av = _ann(b, 'attributes')
    if av:
        def chk(x):
            have = dict((a.get('name'), a.get('value')) for a in x.el.findall(GI + 'attribute'))
            for k, v in av.items():
                if have.get(k) != v:
                    return '<attribute name=%r> is %r, expected %r' % (k, have.get(k), v)
            return None
        out.append(('attributes', chk))
    return out


def _attr_is(attr, val):
    return lambda x: None if x.attrs.get(attr) == val else '%s=%r, expected %r' % (attr, x.attrs.get(attr), val)


def _heuristic_accessor_of(W, cls, mname):
    """Property of class cls whose conventional accessor is called mname, or None."""
    for p in W['classes'][cls]['props']:
        u = p.replace('-', '_')
        if mname in ('set_' + u, 'get_' + u, 'is_' + u, u):
            return p
    return None


def check_case(case, ctx):
    W = world(case['flags'])
    blocks = [dict(b) for b in case['blocks']]
    idents = [b['ident'] for b in blocks]
    if len(set(idents)) != len(idents) or not blocks:
        raise Discard()
    elems = [W['idents'].get(b['ident']) for b in blocks]

    for b in blocks:
        for a, v in b['anns']:
            ctx.label('ann:' + a)
        for t in ('since', 'deprecated', 'stability'):
            if b.get(t):
                ctx.label('tag:' + t)

    # ---- known findings excluded by construction (exactly the shape; the rest of the case is still checked)
    for b, e in zip(blocks, elems):
        if e is None:
            continue
        if e['kind'] == 'signal' and _has(b, 'emitter'):
            m = W['funcs'].get(W['classes'][e['owner']]['methods'].get(_ann(b, 'emitter'), ''))
            if m is not None and e['nparams'] >= 1 and m['nparams'] == e['nparams'] and m['void'] == (e['ret'] == 'void'):
                if ctx.known('crash:emitter-names-method-with-parameters'):
                    b['anns'] = [x for x in b['anns'] if x[0] != 'emitter']
        if e['kind'] == 'function' and _has(b, 'virtual') and (
                (e['owner'] is not None and e['owner'] not in W['classes'])
                or (e['role'] == 'function' and e['method_ok'] and _has(b, 'method'))):
            if ctx.known('crash:virtual-on-method-of-record'):
                b['anns'] = [x for x in b['anns'] if x[0] != 'virtual']
        if e['kind'] == 'function' and e['role'] == 'method' and _has(b, 'method'):
            if ctx.known('redundant-method-annotation-keeps-type-prefix'):
                b['anns'] = [x for x in b['anns'] if x[0] != 'method']

    def comments_of(bs):
        return [[render(b), '/src/foo.c', 100 + 40 * blocks.index(b)] for b in bs]

    res_all = _run(W, comments_of(blocks), ctx, 'all blocks')
    A = index(res_all.gir)

    # ---- labels
    nested = near = False
    for b, e in zip(blocks, elems):
        if e is None:
            near = True
            ctx.label('block:near-miss', 'near:' + (b.get('origin') or 'near:?').split(':', 1)[-1])
        else:
            ctx.label('block:real', 'form:' + e['form'], 'kind:' + e['kind'])
            if e['form'] in NESTED_FORMS:
                nested = True
    by_ident = dict((b['ident'], b) for b in blocks)

    skipped_types = set(_gir_name_of_type(e['ctype']) for b, e in zip(blocks, elems)
                        if e is not None and e['form'] == 'type' and _has(b, 'skip'))

    def vfunc_has_own_block(cls, slot):
        return ('%s::%s' % (W['classes'][cls]['struct'], slot)) in by_ident

    # ---- 1. direct
    for b, e in zip(blocks, elems):
        if e is None:
            continue
        sp = self_pred(e, W)
        targets = [x for x in A.values() if sp(x)]
        primary = [x for x in targets if 'moved-to' not in x.attrs] or targets
        if not primary:
            raise Violation('direct:documented-element-missing', '%s (%s) has no element in the GIR\n%s' % (b['ident'], e['kind'], render(b)))
        checks = list(_expected_generic(b))
        overridden = False
        # the invoker's block is merged into a virtual method that has its own block (known finding): the generic
        # expectations of the vfunc's own block are then not asserted
        if e['kind'] == 'vfunc':
            inv = W['classes'][e['owner']]['methods'].get(e['name'])
            overriders = [ob for ob in blocks if ob is not b and W['idents'].get(ob['ident']) is not None
                          and W['idents'][ob['ident']]['kind'] == 'function' and W['idents'][ob['ident']].get('owner') == e['owner']
                          and (ob['ident'] == inv or _ann(ob, 'virtual') == e['name'])]
            theirs = set()
            for ob in overriders:
                theirs.update(c[0] for c in _expected_generic(ob) if c[0] != 'skip')
                theirs.update(a for a, v in ob['anns'] if a in ASYNC_ATTRS)
            if theirs & (set(c[0] for c in checks) | set(a for a, v in b['anns'] if a in ASYNC_ATTRS)) \
                    and ctx.known('vfunc-own-block-overridden-by-invoker-block'):
                overridden = theirs
        if e['kind'] == 'field' and e['cbfield'] and b['since']:
            if ctx.known('since-lost-on-callback-field'):
                checks = [c for c in checks if c[0] != 'since']
        for a, v in b['anns']:
            if a in GENERIC or applicable(a, e, W) != 'yes':
                continue
            if a == 'constructor':
                checks.append((a, lambda x: None if x.tag == 'constructor' else 'element is <%s>' % x.tag))
            elif a == 'method':
                if not _has(b, 'constructor'):
                    checks.append((a, lambda x: None if x.tag == 'method' else 'element is <%s>' % x.tag))
            elif a == 'value':
                checks.append((a, _attr_is('value', v)))
            elif a in CLASS_FUNCS:
                checks.append((a, _attr_is(CLASS_FUNCS[a], v)))
            elif a in REC_FUNCS:
                checks.append((a, _attr_is(REC_FUNCS[a], v)))
            elif a == 'foreign':
                checks.append((a, _attr_is('foreign', '1')))
            elif a in PROP_ATTRS:
                tn = primary[0].el.find(GI + 'type')
                if a != 'default-value' and tn is not None and tn.get('name') in skipped_types:
                    # a property whose type is skipped is not introspectable and loses its accessors (C05 territory)
                    ctx.label('undecided:accessor-of-property-with-skipped-type')
                    continue
                if a != 'default-value' and v not in W['classes'][e['owner']]['methods']:
                    # names no method of the type: refused with a warning, nothing is written (the typelib
                    # compiler aborts on a dangling accessor)
                    checks.append((a, _attr_is(PROP_ATTRS[a], None)))
                    ctx.label('accessor-annotation-names-nothing')
                    continue
                mp = p_child(e['owner'], 'method', v, False)
                if primary[0].attrs.get('introspectable') == '0':
                    ctx.label('undecided:accessor-of-hidden-property')     # neither end is in the typelib
                    continue
                named = [x for x in A.values() if mp(x)]
                if named and all(x.attrs.get('introspectable') == '0' for x in named):
                    # the named method is not introspectable (e.g. returns an object without a transfer annotation):
                    # it will not be in the typelib, so the property cannot refer to it
                    checks.append((a, _attr_is(PROP_ATTRS[a], None)))
                    ctx.label('accessor-annotation-names-hidden-method')
                    continue
                checks.append((a, _attr_is(PROP_ATTRS[a], v)))
            elif a == 'transfer':
                checks.append((a, _attr_is('transfer-ownership', 'none' if v == 'floating' else v)))
            elif a == 'type':
                def chk(x, v=v):
                    t = x.el.find(GI + 'type')
                    got = None if t is None else t.get('name')
                    return None if got == TYPE_VALUES[v] else '<type name=%r>, (type %s) expects %r' % (got, v, TYPE_VALUES[v])
                checks.append((a, chk))
            elif a == 'emitter':
                # the scanner refuses (with a warning) an emitter whose signature does not fit the signal
                if any('Emitter method' in dg.text and '::' + e['name'] in dg.text for dg in res_all.diags):
                    ctx.label('emitter-refused-with-diagnostic')
                else:
                    checks.append((a, _attr_is('emitter', v)))
            elif a in ASYNC_ATTRS:
                if a == 'async-func' and e['kind'] == 'function' and e.get('owner') in W['classes'] \
                        and (e['name'] + '_async') in W['classes'][e['owner']]['methods'] \
                        and ctx.known('async-func-annotation-overridden-by-heuristic'):
                    continue        # X (async-func Y) where X_async/X_finish exist: the heuristic overwrites Y
                checks.append((a, _attr_is(ASYNC_ATTRS[a], v)))
            elif a in ('set-property', 'get-property'):
                if _has(b, 'constructor'):
                    continue
                h = _heuristic_accessor_of(W, e['owner'], e['name'])
                for ob, oe in zip(blocks, elems):       # a property block naming this method as its (setter)/(getter)
                    if oe is not None and oe['kind'] == 'property' and oe['owner'] == e['owner'] and oe['name'] != v \
                            and e['name'] in (_ann(ob, 'setter'), _ann(ob, 'getter')):
                        h = oe['name']
                if h is not None and h != v:
                    ctx.label('undecided:accessor-annotation-contradicts-name')
                    continue
                if v not in W['classes'][e['owner']]['props']:
                    checks.append((a, _attr_is('glib:' + a, None)))       # names no property of the type: refused
                    ctx.label('accessor-annotation-names-nothing')
                    continue
                checks.append((a, _attr_is('glib:' + a, v)))
            elif a == 'virtual':
                if v in W['classes'][e['owner']]['slots'] and not _has(b, 'constructor'):
                    rivals = [ob for ob in blocks if ob is not b and _ann(ob, 'virtual') == v]
                    auto = W['classes'][e['owner']]['methods'].get(v)
                    if rivals or (auto and auto != e['id']):
                        ctx.label('undecided:several-invokers')
                        continue
                    vp = p_child(e['owner'], 'virtual-method', v, False)
                    vf = [x for x in A.values() if vp(x)]
                    if len(vf) != 1 or vf[0].attrs.get('invoker') != primary[0].attrs.get('name'):
                        raise Violation('direct:virtual', '(virtual %s) on %s: virtual method has invoker=%r\n%s'
                                        % (v, b['ident'], vf[0].attrs.get('invoker') if vf else None, render(b)))
                    ctx.label('direct:virtual')
            elif a == 'rename-to':
                grp = W['groups'].get(e.get('group') or '', [])
                if v not in grp or _has(b, 'constructor') or _has(b, 'method'):
                    continue
                tb = by_ident.get(v)
                others = [ob for ob in blocks if ob is not b and _ann(ob, 'rename-to') in (v, b['ident'])]
                if others or (tb is not None and (_has(tb, 'rename-to') or _has(tb, 'constructor') or _has(tb, 'method'))):
                    ctx.label('undecided:rename-to-competition')
                    continue
                tgt = [x for x in A.values() if x.tag in CALLABLE_TAGS and x.attrs.get('c:identifier') == v]
                me = primary[0]
                if len(tgt) != 1 or me.attrs.get('shadows') != tgt[0].attrs.get('name') \
                        or tgt[0].attrs.get('shadowed-by') != me.attrs.get('name'):
                    raise Violation('direct:rename-to', '%s (rename-to %s): shadows=%r, target shadowed-by=%r\n%s'
                                    % (b['ident'], v, me.attrs.get('shadows'), tgt[0].attrs.get('shadowed-by') if tgt else None, render(b)))
                ctx.label('direct:rename-to')
        if overridden:
            checks = [c for c in checks if c[0] not in overridden]
        for clause, chk in checks:
            for x in primary:
                prob = chk(x)
                if prob:
                    raise Violation('direct:' + clause, '%s [%s] -> %r: %s\n%s' % (b['ident'], e['kind'], x, prob, render(b)))
            ctx.label('direct:' + clause)

    # ---- 1b. a virtual method without a block of its own inherits from its invoker
    for cls, ci in W['classes'].items():
        for slot in ci['slots']:
            if vfunc_has_own_block(cls, slot):
                continue
            srcs = []
            auto = ci['methods'].get(slot)
            if auto and auto in by_ident:
                srcs.append(by_ident[auto])
            for ob in blocks:
                oe = W['idents'].get(ob['ident'])
                if oe is not None and oe['kind'] == 'function' and oe.get('owner') == cls \
                        and _ann(ob, 'virtual') == slot and ob not in srcs:
                    srcs.append(ob)
            if len(srcs) != 1 or _has(srcs[0], 'constructor'):
                continue
            vp = p_child(cls, 'virtual-method', slot, False)
            vf = [x for x in A.values() if vp(x)]
            if len(vf) != 1:
                raise Violation('direct:virtual-method-missing', '%s::%s' % (ci['struct'], slot))
            for clause, chk in _expected_generic(srcs[0]):
                prob = chk(vf[0])
                if prob:
                    raise Violation('inherit:' + clause, 'virtual method %s::%s has no block of its own; invoker block %s: %s\n%s'
                                    % (ci['struct'], slot, srcs[0]['ident'], prob, render(srcs[0])))
            ctx.label('inherit-from-invoker')

    # ---- 1c. shadows / shadowed-by are mutually consistent everywhere
    groups = {}
    for x in A.values():
        if x.tag in CALLABLE_TAGS:
            groups.setdefault(x.path[:-1], []).append(x)
    for parent, xs in groups.items():
        for x in xs:
            s = x.attrs.get('shadows')
            if s is not None:
                t = [y for y in xs if y.attrs.get('name') == s and y.attrs.get('shadowed-by') == x.attrs.get('name')]
                if len(t) != 1:
                    raise Violation('rename-to-pair-inconsistent', '%r shadows=%r but %d siblings named %r are shadowed-by %r'
                                    % (x, s, len(t), s, x.attrs.get('name')))
            sb = x.attrs.get('shadowed-by')
            if sb is not None:
                t = [y for y in xs if y.attrs.get('name') == sb and y.attrs.get('shadows') == x.attrs.get('name')]
                if len(t) != 1:
                    raise Violation('rename-to-pair-inconsistent', '%r shadowed-by=%r but %d siblings named %r shadow %r'
                                    % (x, sb, len(t), sb, x.attrs.get('name')))

    # rename-to connected components (competitors legitimately exchange the pair when one block is removed)
    edges = []
    for b, e in zip(blocks, elems):
        if e is not None and e['kind'] == 'function' and _has(b, 'rename-to'):
            edges.append((b['ident'], _ann(b, 'rename-to')))

    def component(sym):
        comp = set([sym])
        changed = True
        while changed:
            changed = False
            for s, t in edges:
                if (s in comp) != (t in comp):
                    comp.update((s, t))
                    changed = True
        return comp

    # ---- 2. locality
    for i, (b, e) in enumerate(zip(blocks, elems)):
        rest = [x for x in blocks if x is not b]
        res_i = _run(W, comments_of(rest), ctx, 'without block %s' % b['ident'])
        Bi = index(res_i.gir)
        d = diff(A, Bi)
        if e is None:
            if d:
                raise Violation('near-miss-block-changes-gir', 'block %r names no element (%s of %s) but removing it changes %s\n%s'
                                % (b['ident'], b.get('origin'), b.get('of'), _describe(d), render(b)))
            ctx.label('near-miss-inert')
            if [x.text for x in res_all.diags] != [x.text for x in res_i.diags]:
                ctx.label('near-miss-diagnosed')
            continue
        rules = _rules(b, e, W, blocks, by_ident, component, A, Bi)
        for p, a, bb, an, kt in d:
            ok = False
            for pred, attrs_ok, kids_ok in rules:
                if not any(pred(x) for x in (a, bb) if x is not None):
                    continue
                if attrs_ok is None and kids_ok is None:
                    ok = True
                    break
                if an is None:
                    continue
                if an <= (attrs_ok or set()) and kt <= (kids_ok or set()):
                    ok = True
                    break
            if not ok:
                key = _leak_known(b, e, W, a or bb, an, kt, by_ident)
                if key and ctx.known(key):
                    continue
                raise Violation('leak:' + _leak_bucket(e, a or bb), 'removing the block %r [%s] changes %s (%s)\n--- block\n%s\n--- all blocks\n%s'
                                % (b['ident'], e['kind'], '/'.join('%s:%s' % q for q in p),
                                   'present on one side only' if an is None else 'attributes %s children %s' % (sorted(an), sorted(kt)),
                                   render(b), '\n'.join(render(x) for x in blocks)))
        ctx.label('local')

        # ---- 3. inapplicable annotations change nothing
        bad = [a for a, v in b['anns'] if applicable(a, e, W) == 'no']
        if bad:
            stripped = dict(b, anns=[x for x in b['anns'] if x[0] not in bad])
            cm = [[render(stripped if x is b else x), '/src/foo.c', 100 + 40 * blocks.index(x)] for x in blocks]
            res_s = _run(W, cm, ctx, 'block %s without %s' % (b['ident'], bad))
            ds = diff(A, index(res_s.gir))
            for a in bad:
                ctx.label('inapplicable:' + a)
            if ds and e['kind'] == 'function' and set(bad) & set(['set-property', 'get-property']):
                # known finding: exactly the glib:set/get-property attribute on the function the block documents
                mine = p_cid(e['id'])
                acc = [x for x in ds if x[3] is not None and x[3] <= set(['glib:set-property', 'glib:get-property']) and not x[4]
                       and mine(x[1])]
                if acc and ctx.known('accessor-annotation-on-non-method'):
                    ds = [x for x in ds if x not in acc]
            if ds:
                raise Violation('inapplicable-annotation-has-effect:' + '+'.join(sorted(bad)),
                                '%s on %s [%s] is outside the documented "applies to" yet changes %s\n%s'
                                % (bad, b['ident'], e['kind'], _describe(ds), render(b)))
            if [x.text for x in res_all.diags] != [x.text for x in res_s.diags]:
                ctx.label('inapplicable-diagnosed')
            else:
                ctx.label('inapplicable-silent')

    if nested and near:
        ctx.note_nontrivial(case)
        ctx.sample({'blocks': [render(b) for b in blocks]}, 3)


def _describe(d):
    out = []
    for p, a, b, an, kt in d[:4]:
        out.append('%s (%s)' % ('/'.join('%s:%s' % q for q in p), 'one side only' if an is None else 'attrs %s kids %s' % (sorted(an), sorted(kt))))
    return '; '.join(out)


def _leak_bucket(e, x):
    return '%s-block-changes-%s' % (e['kind'], x.tag)


def _leak_known(b, e, W, x, an, kt, by_ident):
    """Key of the known finding a leak matches, or None."""
    # the invoker's block is merged into a virtual method that has a block of its own
    if e['kind'] == 'function' and e.get('owner') in W['classes'] and x.tag == 'virtual-method':
        slot = x.attrs.get('name')
        if ('%s::%s' % (W['classes'][e['owner']]['struct'], slot)) in by_ident \
                and ((e['role'] == 'method' and e['name'] == slot) or _ann(b, 'virtual') == slot):
            return 'vfunc-own-block-overridden-by-invoker-block'
    return None


def _rules(b, e, W, blocks, by_ident, component, A, Bi):
    """[(predicate, allowed attribute names | None, allowed child tags | None)]; (pred, None, None) = anything goes."""
    k = e['kind']
    type_wide = e['form'] == 'type' and (_has(b, 'skip') or _has(b, 'foreign'))
    rules = [(own_pred(e, W, type_wide), None, None)]
    if type_wide:
        names = set([_gir_name_of_type(e['ctype'])])
        grew = True
        while grew:
            grew = False
            for idx in (A, Bi):
                for x in idx.values():
                    if x.tag == 'callback' and len(x.chain) == 1 and x.attrs.get('name') not in names and (x.refs & names):
                        names.add(x.attrs.get('name'))
                        grew = True

        def refs_pred(x):
            if x.refs & names:
                return True
            if x.tag in CALLABLE_TAGS or x.tag in ('field', 'callback', 'property', 'glib:signal'):
                idx = A if A.get(x.path) is x else Bi
                return bool(deep_refs(idx, x) & names)
            return False
        rules.append((refs_pred, None, None))
        # a property of that type stops being introspectable: its accessor methods lose glib:set/get-property
        rules.append((lambda x: x.tag == 'method' and len(x.chain) == 2, set(['glib:set-property', 'glib:get-property']), set()))
    if k == 'function':
        if _has(b, 'rename-to'):
            for s in component(b['ident']):
                rules.append((p_cid(s), set(['shadows', 'shadowed-by']), set()))
        cls = e.get('owner') if e.get('owner') in W['classes'] else None
        if cls:
            ci = W['classes'][cls]
            slots = set()
            if e['role'] == 'method' and e['name'] in ci['slots']:
                slots.add(e['name'])
            if _has(b, 'virtual') and _ann(b, 'virtual') in ci['slots']:
                slots.add(_ann(b, 'virtual'))
            for s in slots:
                if ('%s::%s' % (ci['struct'], s)) in by_ident:
                    if _ann(b, 'virtual') == s:
                        rules.append((p_child(cls, 'virtual-method', s), set(['invoker']), set()))
                else:
                    rules.append((p_child(cls, 'virtual-method', s), None, None))
            for a in ('set-property', 'get-property'):
                if _has(b, a) and e['role'] == 'method':
                    rules.append((p_child(cls, 'property', _ann(b, a), False), set(['setter', 'getter']), set()))
            if e['role'] == 'method':
                # whether the method is introspectable (skip, transfer on its values, types) decides whether a
                # property of the type may keep naming it as its accessor
                rules.append((lambda x, cls=cls: x.tag == 'property' and len(x.chain) == 2 and _is_type(x.chain[0], cls),
                              set(['setter', 'getter']), set()))
        if any(_has(b, a) for a in ASYNC_ATTRS):
            rules.append((p_callable_any(), set(ASYNC_ATTRS.values()), set()))
    if k == 'property':
        if _has(b, 'setter') or _has(b, 'getter') or _has(b, 'type') or _has(b, 'skip'):
            rules.append((p_method_of(e['owner']), set(['glib:set-property', 'glib:get-property']), set()))
    if k == 'field' and e['cbfield'] and e.get('slot_of'):
        ci = W['classes'][e['slot_of']]
        if ('%s::%s' % (ci['struct'], e['name'])) not in by_ident:
            # "Prefer full docblocks, but fall back to the field description": only the description
            rules.append((p_child(e['slot_of'], 'virtual-method', e['name'], False), set(), set(['doc'])))
    return rules


def plan(tier):
    n = 30 if tier == 'quick' else 1200
    if os.environ.get('VERIF_C03_N'):          # development aid: cases per shard
        n = int(os.environ['VERIF_C03_N'])
    return [{'n': n, 'part': i} for i in range(16)]


def run_shard(ctx, spec):
    ctx.hyp(cases(), spec['n'])


def health(agg, tier):
    probs = []
    lab = agg['labels']
    ev = max(1, agg['evals'])
    scale = ev / 300.0
    if ev < 150:
        return probs        # development runs with a few shards: frequencies are noise
    for f, mn in (('form:symbol', 40), ('form:type', 30), ('form:prop', 30), ('form:signal', 15), ('form:field', 25),
                  ('form:vfunc', 20), ('form:member', 8), ('form:const', 4), ('block:near-miss', 200), ('near-miss-inert', 200),
                  ('inherit-from-invoker', 15), ('tag:since', 150), ('tag:deprecated', 150), ('tag:stability', 100), ('local', 500),
                  ('direct:doc', 100), ('direct:since', 100), ('direct:deprecated-version', 80), ('direct:stability', 60),
                  ('direct:skip', 30), ('direct:attributes', 30)):
        if lab.get(f, 0) < mn * scale:
            probs.append('%s only %d times in %d cases' % (f, lab.get(f, 0), ev))
    for a in ALL_ANNS:
        if lab.get('ann:' + a, 0) < 4 * scale:
            probs.append('annotation %s drawn only %d times in %d cases' % (a, lab.get('ann:' + a, 0), ev))
    for how in ('form:as-property', 'form:as-signal', 'form:as-field', 'other-owner', 'prefix', 'suffix', 'case', 'gi-name'):
        if lab.get('near:' + how, 0) < 4 * scale:
            probs.append('near-miss kind %s only %d times' % (how, lab.get('near:' + how, 0)))
    if agg['discards'] > 0.05 * ev:
        probs.append('discard rate %d/%d' % (agg['discards'], ev))
    if len(agg['nontrivial']) < 0.5 * ev:
        probs.append('only %d of %d cases non-trivial' % (len(agg['nontrivial']), ev))
    return probs
