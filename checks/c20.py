"""C20 - the XML writer always produces well-formed, lossless XML.

Oracle: the string returned by XMLWriter is parsed with expat (independent of
the writer) and compared with the document model the operations describe.
"""
import re
import sys
import xml.parsers.expat

from hypothesis import strategies as st

from vlib.runner import Violation, crash_clause, REPO

ID = 'C20'
LEVEL = 'exploration'
RULE = ('Hypothesis-generated trees of XMLWriter operations (push_tag/pop_tag, tagcontext with and '
        'without a raising body, write_tag with str/bytes/None data, write_comment, escaped text '
        'lines) over XML Name / Char productions, each run with whitespace enabled and disabled; '
        'non-trivial = the output wraps an attribute list over several lines AND some attribute '
        'value or text needs escaping (one of <>&"\' newline tab CR or non-ASCII); distinct = hash of '
        'the case')
ASSUMPTIONS = [
    'expat (xml.parsers.expat) is a correct XML 1.0 parser',
    'generator restricted to what XML itself can represent: unique attribute names per element, '
    'no "--" in comments, no CR in element text or comments, XML 1.0 Char range',
]

sys.path.insert(0, REPO)


class Boom(Exception):
    pass


# ------------------------------------------------------------------ generator
_name_start = st.sampled_from(list('abcdefghijklmnopqrstuvwxyzABCDEFGHIJKLMNOPQRSTUVWXYZ_') + ['é', 'α', '中'])
_name_char = st.sampled_from(list('abcdefghijklmnopqrstuvwxyzABCDEFGHIJKLMNOPQRSTUVWXYZ_0123456789-.') + ['é', '·'])


@st.composite
def _ncname(draw):
    return draw(_name_start) + ''.join(draw(st.lists(_name_char, max_size=14)))


@st.composite
def _qname(draw):
    n = draw(_ncname())
    if draw(st.integers(0, 4)) == 0:
        n = draw(st.sampled_from(['c', 'glib', 'xml', 'xmlns', 'p'])) + ':' + n
    return n


# XML 1.0 Char production
_xml_char = st.one_of(
    st.sampled_from(list('<>&"\'\n\t =/;#-]')),
    st.characters(min_codepoint=0x20, max_codepoint=0x7e),
    st.characters(min_codepoint=0x20, max_codepoint=0xD7FF),
    st.characters(min_codepoint=0xE000, max_codepoint=0xFFFD),
    st.characters(min_codepoint=0x10000, max_codepoint=0x10FFFF),
)
_frag = st.sampled_from(['&amp;', '&#10;', ']]>', '<![CDATA[', '<!--', '-->', '<?x ?>', '&lt;', "'\"", '%s', '\\n', '&#xD;'])


def _text(with_cr, max_size=40):
    alpha = st.one_of(_xml_char, st.just('\r')) if with_cr else _xml_char
    return st.lists(st.one_of(alpha, alpha, alpha, _frag), max_size=max_size).map(''.join)


_attr_value = st.one_of(st.none(), _text(True, 30), _text(True, 8), st.text(alphabet='abcdefghij ', max_size=60))


@st.composite
def _attrs(draw):
    n = draw(st.one_of(st.integers(0, 3), st.integers(0, 9)))
    names = draw(st.lists(_qname(), min_size=n, max_size=n, unique=True))
    return [[nm, draw(_attr_value)] for nm in names]


def _comment_text():
    def fix(s):
        while '--' in s:
            s = s.replace('--', '- -')
        return s
    return _text(False, 20).map(fix)


def _node(children):
    leaf = st.fixed_dictionaries({'k': st.just('leaf'), 'tag': _qname(), 'attrs': _attrs(),
                                  'data': st.one_of(st.none(), _text(False)),
                                  'bytes': st.booleans()})
    comment = st.fixed_dictionaries({'k': st.just('comment'), 'text': _comment_text()})
    text = st.fixed_dictionaries({'k': st.just('text'), 'text': _text(False, 20),
                                  'indent': st.booleans()})
    elem = st.fixed_dictionaries({'k': st.just('elem'), 'tag': _qname(),
                                  'attrs': st.one_of(st.none(), _attrs()),
                                  'ctx': st.booleans(),
                                  'raise': st.integers(0, 3).map(lambda x: x == 0),
                                  'children': st.lists(children, max_size=5)})
    return st.one_of(leaf, leaf, comment, text, elem, elem)


_leafish = st.fixed_dictionaries({'k': st.just('leaf'), 'tag': _qname(), 'attrs': _attrs(),
                                  'data': st.one_of(st.none(), _text(False)), 'bytes': st.booleans()})
_tree = st.recursive(_leafish, lambda ch: _node(ch), max_leaves=25)


def _chain(depth):
    # deep nesting so that indentation crosses the wrapping rule at every level
    def build(draw_attrs_tags):
        node = None
        for tag, attrs in reversed(draw_attrs_tags):
            node = {'k': 'elem', 'tag': tag, 'attrs': attrs, 'ctx': False, 'raise': False,
                    'children': [node] if node else []}
        return node
    return st.lists(st.tuples(_qname(), _attrs()), min_size=1, max_size=depth).map(build)


def strategy():
    root = st.fixed_dictionaries({'k': st.just('elem'), 'tag': _qname(), 'attrs': st.one_of(st.none(), _attrs()),
                                  'ctx': st.just(False), 'raise': st.just(False),
                                  'children': st.lists(st.one_of(_tree, _tree, _tree, _chain(12)), max_size=5)})
    return st.fixed_dictionaries({'root': root, 'pre_comment': st.one_of(st.none(), _comment_text())})


# ------------------------------------------------------------------ execution
def _attr_arg(attrs):
    if attrs is None:
        return None
    return [(n, v) for n, v in attrs]


def _emit(w, node):
    k = node['k']
    if k == 'leaf':
        data = node['data']
        if data is not None and node['bytes']:
            data = data.encode('utf-8')
        w.write_tag(node['tag'], _attr_arg(node['attrs']), data)
    elif k == 'comment':
        w.write_comment(node['text'])
    elif k == 'text':
        w.write_line(node['text'], indent=node['indent'], do_escape=True)
    else:
        if node['ctx']:
            with w.tagcontext(node['tag'], _attr_arg(node['attrs'])):
                for c in node['children']:
                    _emit(w, c)
                if node['raise']:
                    raise Boom()
        else:
            if node['attrs'] is None:
                w.push_tag(node['tag'])
            else:
                w.push_tag(node['tag'], _attr_arg(node['attrs']))
            try:
                for c in node['children']:
                    _emit(w, c)
            except Boom:
                pass
            popped = w.pop_tag()
            if popped != node['tag']:
                raise Violation('stack-order', 'pop_tag returned %r while closing %r' % (popped, node['tag']))


def _expected(node):
    """Model of the document: (tree, raised). Mirrors only the *call protocol*
    (which writer calls are made before an exception cuts a subtree)."""
    k = node['k']
    if k == 'leaf':
        attrs = dict((n, v) for n, v in node['attrs'] if v is not None)
        return ['L', node['tag'], attrs, node['data']], False
    if k == 'comment':
        return ['C', ' %s ' % node['text']], False
    if k == 'text':
        return ['T', node['text']], False
    attrs = dict((n, v) for n, v in (node['attrs'] or []) if v is not None)
    kids = []
    raised = False
    for c in node['children']:
        t, r = _expected(c)
        kids.append(t)
        if r:
            raised = True
            break
    if node['ctx']:
        if not raised and node['raise']:
            raised = True
        return ['E', node['tag'], attrs, kids], raised
    return ['E', node['tag'], attrs, kids], False


def _parse(xml_bytes):
    p = xml.parsers.expat.ParserCreate()
    p.ordered_attributes = True
    p.buffer_text = True
    root = ['ROOT', None, {}, []]
    stack = [root]
    dup = []

    def start(name, attrs):
        d = {}
        for i in range(0, len(attrs), 2):
            if attrs[i] in d:
                dup.append(attrs[i])
            d[attrs[i]] = attrs[i + 1]
        e = ['E', name, d, []]
        stack[-1][3].append(e)
        stack.append(e)

    def end(name):
        stack.pop()

    def chars(data):
        kids = stack[-1][3]
        if kids and kids[-1][0] == 'T':
            kids[-1][1] += data
        else:
            kids.append(['T', data])

    def comment(data):
        stack[-1][3].append(['C', data])

    p.StartElementHandler = start
    p.EndElementHandler = end
    p.CharacterDataHandler = chars
    p.CommentHandler = comment
    p.Parse(xml_bytes, True)
    return root


def _kids(kids, ws):
    """Merge adjacent text; with whitespace enabled the writer surrounds every
    line with indentation and a newline, so free text is compared as a token
    sequence there and exactly when whitespace is disabled."""
    out = []
    for k in kids:
        if k[0] == 'T' and out and out[-1][0] == 'T':
            out[-1] = ['T', out[-1][1] + (' ' if ws else '') + k[1]]
        else:
            out.append(list(k))
    res = []
    for k in out:
        if k[0] == 'T':
            if ws:
                toks = k[1].split()
                if toks:
                    res.append(['T', toks])
            elif k[1] != '':
                res.append(k)
        else:
            res.append(k)
    return res


def _cmp(exp, got, ws, path='/'):
    """exp: model node ('L' leaf written by write_tag, 'E', 'C', 'T', 'ROOT')."""
    if exp[0] in ('T', 'C'):
        if exp != got:
            return '%s: %r vs %r' % (path, exp, got)
        return None
    if got[0] not in ('E', 'ROOT'):
        return '%s: expected element %r, got %r' % (path, exp[1], got)
    if exp[1] != got[1]:
        return '%s: tag %r vs %r' % (path, exp[1], got[1])
    if exp[2] != got[2]:
        return '%s<%s>: attributes %r vs %r' % (path, exp[1], exp[2], got[2])
    if exp[0] == 'L':
        if any(k[0] != 'T' for k in got[3]):
            return '%s<%s>: leaf has non-text children %r' % (path, exp[1], got[3])
        text = ''.join(k[1] for k in got[3])
        if text != (exp[3] or ''):
            return '%s<%s>: leaf text %r vs %r' % (path, exp[1], exp[3], text)
        return None
    ek = _kids(exp[3], ws)
    gk = _kids(got[3], ws)
    if len(ek) != len(gk):
        return '%s<%s>: %d children vs %d: %r vs %r' % (path, exp[1], len(ek), len(gk),
                                                       [k[:2] for k in ek], [k[:2] for k in gk])
    for i, (x, y) in enumerate(zip(ek, gk)):
        d = _cmp(x, y, ws, '%s%s[%d]/' % (path, exp[1], i))
        if d:
            return d
    return None


_NEEDS_ESC = re.compile('[<>&"\'\n\t\r\u0080-\U0010ffff]')


def _has_escape(node):
    for n, v in (node.get('attrs') or []):
        if v and _NEEDS_ESC.search(v):
            return True
    if node.get('data') and _NEEDS_ESC.search(node['data']):
        return True
    if node['k'] == 'text' and _NEEDS_ESC.search(node['text']):
        return True
    return any(_has_escape(c) for c in node.get('children', []))


def check_case(case, ctx):
    from giscanner.xmlwriter import XMLWriter
    exp_tree, _ = _expected(case['root'])
    results = {}
    for ws in (True, False):
        w = XMLWriter()
        if not ws:
            w.disable_whitespace()
        if case.get('pre_comment') is not None:
            w.write_comment(case['pre_comment'])
        try:
            _emit(w, case['root'])
        except Boom:
            raise Violation('exception-escaped-model', 'Boom escaped the root element')
        except Violation:
            raise
        except Exception as e:
            # every call sequence of a case is a legal use of the writer: an exception out of it is the writer's
            raise Violation(crash_clause(e), '%r while emitting the case' % (e,))
        if w._tag_stack if hasattr(w, '_tag_stack') else False:
            raise Violation('stack-unbalanced', 'elements left open after all pops: %r' % (w._tag_stack,))
        text = w.get_xml()
        enc = w.get_encoded_xml()
        if not isinstance(enc, bytes):
            raise Violation('encoded-not-bytes', repr(type(enc)))
        try:
            if enc.decode('utf-8') != text:
                raise Violation('encoding-mismatch', 'get_encoded_xml() is not the UTF-8 encoding of get_xml()')
        except UnicodeDecodeError as e:
            raise Violation('not-utf8', str(e))
        try:
            got = _parse(enc)
        except xml.parsers.expat.ExpatError as e:
            raise Violation('not-well-formed', 'ws=%s: %s in %r' % (ws, e, text[:400]))
        exp_root = ['ROOT', None, {}, ([['C', ' %s ' % case['pre_comment']]] if case.get('pre_comment') is not None else []) + [exp_tree]]
        d = _cmp(exp_root, got, ws)
        if d:
            raise Violation('content-differs', 'ws=%s %s' % (ws, d))
        results[ws] = text
    wrapped = re.search(r'<[^<>]*\n[^<>]*>', results[True]) is not None
    esc = _has_escape(case['root'])
    ctx.label('wrapped' if wrapped else 'unwrapped', 'escape' if esc else 'plain')
    if _has_raise(case['root']):
        ctx.label('raise-in-tagcontext')
    if wrapped and esc:
        ctx.note_nontrivial(case)
        ctx.sample({'xml': results[True][:600]}, 3)


def _has_raise(node):
    if node['k'] != 'elem':
        return False
    return (node['ctx'] and node['raise']) or any(_has_raise(c) for c in node['children'])


def plan(tier):
    if tier == 'quick':
        return [{'n': 300}] * 16
    return [{'n': 6000}] * 16


def run_shard(ctx, spec):
    ctx.hyp(strategy(), spec['n'])


def health(agg, tier):
    probs = []
    ev = max(1, agg['evals'])
    if agg['labels'].get('wrapped', 0) < 0.02 * ev:
        probs.append('wrapped attribute lists in <2%% of cases (%d/%d)' % (agg['labels'].get('wrapped', 0), ev))
    if agg['labels'].get('raise-in-tagcontext', 0) < 0.02 * ev:
        probs.append('raising tagcontext bodies in <2% of cases')
    return probs

TECHNIQUE = 'property-based testing (Hypothesis): generated writer-operation trees, parse-back with expat against the document model, whitespace on/off metamorphic pair'
LEVEL_TEXT = ('Randomised search over writer call trees with an independent parser as oracle; every run reports how '
              'many cases wrapped attribute lists and needed escaping. No exhaustive core: the input space is unbounded.')
LEVEL_NOTE = 'trusts expat; inputs restricted to XML-representable strings as the property states'
DESIGN_REF = 'DESIGN.md section 2, C20'
