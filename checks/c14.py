"""C14 - every typelib entry can be found by name, GType name and error domain.

A generated namespace (plus a small dependency namespace that supplies non-local directory
entries and same-named decoy types) is rendered as GIR, compiled with the working tree's
g-ir-compiler and decoded with the independent decoder (vlib/typelib.py).  The `lookup`
driver (vlib/drivers/lookup.c) then answers every probe twice: on the typelib as compiled
(perfect-hash directory index) and on a copy whose directory-index section id was overwritten
with GI_SECTION_END (linear fallback).  Expected answers come from the generated model.
"""
import hashlib
import json
import os
import string
from xml.sax.saxutils import quoteattr

from hypothesis import strategies as st

from vlib import cbuild, typelib
from vlib.runner import Violation, HarnessError

ID = 'C14'
LEVEL = 'exploration'
RULE = ('Hypothesis-generated name sets built from families (explicit short/odd names over [A-Za-z0-9_-], numbered '
        'sequences sharing long prefixes/suffixes, all prefixes / all suffixes of a string, one-position variations, '
        'hash-derived names, names of up to 2047 characters): 1-3000 distinct names in the quick tier, up to 65535 in '
        'the thorough tier (five fixed large sets of 10000-65535); entry kinds cycle through functions, callbacks, '
        'constants, plain/registered records, boxed, unions, interfaces, classes, enums/flags with GType names '
        '(namespace prefix + capital, prefix + raw name, foreign prefix, 1-3 c:identifier-prefixes) and error domains; '
        'a dependency namespace supplies non-local entries (field types, parents) and decoy types/domains with the '
        'same GType name/domain string. Probes: every present name (GType names and domains: up to 800 each), the '
        'non-local names, cross-key probes and 20-150 (sets below 50 entries: 80-600) generated mutations (one character substituted/inserted/'
        'deleted, case flipped, proper prefix/suffix, doubled, empty, >5000 characters, arbitrary literals). '
        'non-trivial = a set of >= 50 entries with >= 1 absent by-name probe whose raw cmph value is < n_local_entries, '
        'i.e. the perfect hash sends it to the slot of another entry and only the final string comparison rejects it '
        '(the raw value is printed by the driver); distinct = hash of the case')
RULE = RULE + ' ' + 'Each driver script carries a history derived from the case: the GTypes are asked for after the dependency but before the namespace is loaded (pre-load miss), and the namespace is loaded eagerly or with G_IREPOSITORY_LOAD_FLAG_LAZY.'
ASSUMPTIONS = [
    'names, GType names and get-type symbols are limited to [A-Za-z0-9_-] and < 2048 characters because g-ir-compiler '
    'validates its own output with that rule (g_typelib_validate); error-domain strings are free text',
    'glib:error-domain is generated on enumerations only (the GIR schema and the scanner have it nowhere else)',
    'g_irepository_find_by_gtype can only be asked for names GLib accepts as type names (>= 3 characters, '
    '[A-Za-z_][A-Za-z0-9_+-]*); other probes exercise g_typelib_get_dir_entry_by_gtype_name only',
    'when two loaded namespaces carry the same GType name, the one whose c:identifier-prefixes match the name is '
    'expected (comment in g_irepository_find_by_gtype); if both or neither match, either answer is accepted; the '
    'same for an error domain present in two namespaces',
    'the dependency typelib is loaded explicitly before the main one, so no search path is consulted',
    'present by-name probes on the no-index copy are capped at 2000 (strided) for sets above that size',
]
TECHNIQUE = ('property-based testing (Hypothesis) of the compiled directory: generated GIR -> g-ir-compiler -> lookups '
             'through a C driver linked against the tree\'s libgirepository, with and without the directory-index '
             'section, compared with the generated model and an independent typelib decoder; ASan/UBSan on every lookup')
LEVEL_TEXT = ('Randomised search over key sets and probes; every present key is probed, absent probes are mutations of '
              'present keys; the oracle is the generated model (set membership), cross-checked against the independent decoder.')
LEVEL_NOTE = 'trusts the GLib header shim (ABI of GLib 2.74), the system GLib type system and the independent decoder'
DESIGN_REF = 'DESIGN.md section 2, C14'

NAME_ALPHA = string.ascii_letters + string.digits + '_-'
MAX_NAME = 2047
PRESENT_CAP = 800        # present GType-name / error-domain probes per set (these lookups are linear)
LINEAR_NAME_CAP = 2000   # present by-name probes on the copy without index
BLOB = {'function': 1, 'callback': 2, 'struct': 3, 'boxed': 4, 'enum': 5, 'flags': 6, 'object': 7,
        'interface': 8, 'constant': 9, 'union': 11}
# kind -> (blob type, has gtype, has domain, needs gtype, cross-namespace reference)
KINDS = {
    'function': ('function', False, False, False, None),
    'callback': ('callback', False, False, False, None),
    'constant': ('constant', False, False, False, None),
    'record': ('struct', False, False, False, None),
    'record-g': ('struct', True, False, False, None),
    'record-xref': ('struct', False, False, False, 'field'),
    'record-g-xref': ('struct', True, False, False, 'field'),
    'boxed': ('boxed', True, False, True, None),
    'union': ('union', False, False, False, None),
    'union-g': ('union', True, False, False, None),
    'interface': ('interface', True, False, True, None),
    'class': ('object', True, False, True, None),
    'class-xparent': ('object', True, False, True, 'parent'),
    'enum': ('enum', False, False, False, None),
    'enum-g': ('enum', True, False, False, None),
    'enum-d': ('enum', False, True, False, None),
    'enum-gd': ('enum', True, True, False, None),
    'flags': ('flags', False, False, False, None),
    'flags-g': ('flags', True, False, False, None),
}
KIND_NAMES = sorted(KINDS)
GSTYLES = ['px', 'px', 'p', 'foreign', 'bare']
DSTYLES = ['quark', 'text', 'colon']
DEP_PREFIX = 'Zed'
PREFIX_SETS = [['Foo'], ['Foo', 'Bar'], ['Bar', 'Foo', 'Baz'], ['G', 'Foo'], ['Foo', 'FooBar'], ['Fo'], ['Foo', 'Zed']]
NS_NAMES = ['Foo', 'Bar', 'Qux', 'Verif', 'Aa', 'Main', 'Test', 'Gtk', 'X1', 'Lookup']
DEP_NS_NAMES = ['Dep', 'Zed', 'Other', 'Lib', 'B', 'Zz9']
ODD_NAMES = ['a', 'A', '_', '-', '--', '0', '-1', '9lives', 'a-b', 'a_b', 'ab', 'aB', 'Ab', 'AB', 'new', 'free',
             'Object', 'object', 'none', 'gint', 'utf8', 'List', 'x', 'y', 'z', '__', '_-', '00', 'e', 'E']
LONG_A = ('shared_prefix_' * 20)
LONG_B = ('_common_tail' * 20)

_B = None


def _build():
    global _B
    if _B is None:
        _B = cbuild.build()
    return _B


def setup(tier):
    _build()


# ------------------------------------------------------------------ case -> model
def _b36(n):
    d = string.digits + string.ascii_lowercase
    s = ''
    while True:
        s = d[n % 36] + s
        n //= 36
        if not n:
            return s


def _hash_name(seed, i, length):
    out = ''
    k = 0
    while len(out) < length:
        h = hashlib.sha256(('%d/%d/%d' % (seed, i, k)).encode()).digest()
        out += ''.join(NAME_ALPHA[b % 64] for b in h)
        k += 1
    return out[:length]


def expand_names(case):
    """The ordered list of distinct entry names described by case['families']."""
    out = []
    for f in case['families']:
        k = f['f']
        if k == 'explicit':
            out.extend(f['names'])
        elif k == 'seq':
            for i in range(f['start'], f['start'] + f['count']):
                num = {10: '%d' % i, 16: '%x' % i, 36: _b36(i)}[f['base']]
                out.append(f['pre'] + num.rjust(f['pad'], '0') + f['suf'])
        elif k == 'chain':
            out.extend(f['s'][:j] for j in range(1, len(f['s']) + 1))
        elif k == 'suffixes':
            out.extend(f['s'][j:] for j in range(len(f['s'])))
        elif k == 'onechar':
            s = f['s']
            p = f['pos'] % len(s)
            out.extend(s[:p] + c + s[p + 1:] for c in NAME_ALPHA)
        elif k == 'hash':
            out.extend(_hash_name(f['seed'], i, f['len']) for i in range(f['count']))
        elif k == 'long':
            body = (f['pre'] * (f['n'] // max(1, len(f['pre'])) + 1))[:f['n']]
            for i in range(f['count']):
                out.append((body + '%d' % i) if not f.get('tailfirst') else ('%d' % i + body))
        else:
            raise HarnessError('unknown family %r' % k)
    seen = set()
    names = []
    for n in out:
        n = n[:MAX_NAME]
        if n and n not in seen and all(c in NAME_ALPHA for c in n):
            seen.add(n)
            names.append(n)
    return names[:case['cap']]


def prefix_matches(prefixes, gtype_name):
    """The rule in the comment of g_typelib_matches_gtype_name_prefix: the name starts with one of the
    namespace's C prefixes and the prefix is followed by a capital letter."""
    for p in prefixes:
        if p and gtype_name.startswith(p) and len(gtype_name) > len(p) and gtype_name[len(p)] in string.ascii_uppercase:
            return True
    return False


def build_model(case):
    names = expand_names(case)
    if not names:
        return None
    kinds = case['kinds']
    prefixes = case['prefixes']
    gst = case['gstyles']
    dst = case['dstyles']
    dep_names = case['dep']['names']
    entries = []
    gtypes = {}
    domains = {}
    xrefs = set()
    for i, name in enumerate(names):
        kind = kinds[i % len(kinds)]
        blob, has_g, has_d, needs_g, xref = KINDS[kind]
        g = d = None
        if has_g:
            style = gst[(i // len(kinds)) % len(gst)]
            pfx = prefixes[i % len(prefixes)]
            g = {'px': pfx + 'X' + name, 'p': pfx + name, 'foreign': DEP_PREFIX + 'Q' + name, 'bare': 't' + name}[style]
            if len(g) > MAX_NAME or g in gtypes:
                g = None
        if has_g and g is None and needs_g:
            blob, xref = 'struct', None
        if has_d:
            style = dst[(i // len(kinds)) % len(dst)]
            d = {'quark': name.lower() + '-quark', 'text': name + ' error <&"é>', 'colon': 'dom:' + name}[style]
            if d in domains:
                d = None
        ref = None
        if xref == 'parent':
            ref = dep_names[0]
        elif xref == 'field':
            ref = dep_names[(i // len(kinds)) % len(dep_names)]
        e = {'i': i, 'name': name, 'blob': blob, 'gtype': g, 'domain': d, 'xref_kind': xref if ref else None, 'ref': ref}
        if g:
            gtypes[g] = e
        if d:
            domains[d] = e
        if ref:
            xrefs.add(ref)
        entries.append(e)

    # dependency namespace: entry 0 is a class, the others records; decoys repeat GType names / domains of the main one
    dep_entries = []
    dep_gtypes = {}
    dep_domains = {}
    for j, dn in enumerate(dep_names):
        g = DEP_PREFIX + 'D' + dn
        if len(g) > MAX_NAME or g in dep_gtypes:
            raise HarnessError('dependency names must be short and distinct')
        dep_entries.append({'name': dn, 'blob': 'object' if j == 0 else 'struct', 'gtype': g, 'domain': None})
        dep_gtypes[g] = dn
    used = set(dep_names)
    glist = list(gtypes)
    for k, sel in enumerate(case['dep']['gdecoys']):
        if not glist:
            break
        g = glist[sel % len(glist)]
        nm = 'GDecoy%d' % k
        if g in dep_gtypes or nm in used:
            continue
        used.add(nm)
        dep_entries.append({'name': nm, 'blob': 'struct', 'gtype': g, 'domain': None})
        dep_gtypes[g] = nm
    dlist = list(domains)
    for k, sel in enumerate(case['dep']['ddecoys']):
        if not dlist:
            break
        d = dlist[sel % len(dlist)]
        nm = 'DDecoy%d' % k
        if d in dep_domains or nm in used:
            continue
        used.add(nm)
        dep_entries.append({'name': nm, 'blob': 'enum', 'gtype': None, 'domain': d})
        dep_domains[d] = nm
    return {'ns': case['ns'], 'dep_ns': case['dep']['ns'], 'prefixes': prefixes, 'entries': entries,
            'by_name': dict((e['name'], e) for e in entries), 'gtypes': gtypes, 'domains': domains,
            'xrefs': sorted(xrefs), 'dep_entries': dep_entries, 'dep_gtypes': dep_gtypes, 'dep_domains': dep_domains}


# ------------------------------------------------------------------ GIR rendering
GIR_HEAD = ('<?xml version="1.0"?>\n<repository version="1.2" xmlns="http://www.gtk.org/introspection/core/1.0" '
            'xmlns:c="http://www.gtk.org/introspection/c/1.0" xmlns:glib="http://www.gtk.org/introspection/glib/1.0">\n')
VOID_RET = '<return-value transfer-ownership="none"><type name="none" c:type="void"/></return-value>'
INT_RET = '<return-value transfer-ownership="none"><type name="gint" c:type="gint"/></return-value>'


def _render_entry(parts, e, idx, sym, dep_ns):
    n = quoteattr(e['name'])
    reg = ''
    if e['gtype']:
        reg = ' glib:type-name=%s glib:get-type="%s_%d_get_type"' % (quoteattr(e['gtype']), sym, idx)
    b = e['blob']
    if b == 'function':
        parts.append('<function name=%s c:identifier="%s_f%d">%s</function>\n' % (n, sym, idx, INT_RET if idx % 2 else VOID_RET))
    elif b == 'callback':
        parts.append('<callback name=%s c:type="%sCb%d">%s</callback>\n' % (n, sym, idx, VOID_RET))
    elif b == 'constant':
        parts.append('<constant name=%s value="%d" c:type="%s_K%d"><type name="gint" c:type="gint"/></constant>\n' % (n, idx, sym, idx))
    elif b == 'struct':
        if e.get('ref'):
            parts.append('<record name=%s c:type="%sR%d"%s><field name="f" writable="1"><type name="%s.%s" c:type="gpointer"/></field></record>\n'
                         % (n, sym, idx, reg, dep_ns, e['ref']))
        else:
            parts.append('<record name=%s c:type="%sR%d"%s/>\n' % (n, sym, idx, reg))
    elif b == 'boxed':
        parts.append('<glib:boxed glib:name=%s c:symbol-prefix="bx%d"%s/>\n' % (n, idx, reg))
    elif b == 'union':
        parts.append('<union name=%s c:type="%sU%d"%s/>\n' % (n, sym, idx, reg))
    elif b == 'interface':
        parts.append('<interface name=%s c:type="%sI%d"%s/>\n' % (n, sym, idx, reg))
    elif b == 'object':
        parent = ' parent="%s.%s"' % (dep_ns, e['ref']) if e.get('ref') else ''
        parts.append('<class name=%s c:type="%sC%d"%s%s/>\n' % (n, sym, idx, parent, reg))
    elif b in ('enum', 'flags'):
        tag = 'enumeration' if b == 'enum' else 'bitfield'
        dom = ' glib:error-domain=%s' % quoteattr(e['domain']) if e['domain'] else ''
        parts.append('<%s name=%s c:type="%sE%d"%s%s><member name="a" value="1" c:identifier="%s_E%d_A"/></%s>\n'
                     % (tag, n, sym, idx, reg, dom, sym.upper(), idx, tag))
    else:
        raise HarnessError('render: blob %r' % b)


def render_main(model):
    parts = [GIR_HEAD, '<include name="%s" version="1.0"/>\n' % model['dep_ns'],
             '<namespace name="%s" version="1.0" c:identifier-prefixes="%s" c:symbol-prefixes="m">\n'
             % (model['ns'], ','.join(model['prefixes']))]
    for e in model['entries']:
        _render_entry(parts, e, e['i'], 'm', model['dep_ns'])
    parts.append('</namespace>\n</repository>\n')
    return ''.join(parts)


def render_dep(model):
    parts = [GIR_HEAD, '<namespace name="%s" version="1.0" c:identifier-prefixes="%s" c:symbol-prefixes="d">\n'
             % (model['dep_ns'], DEP_PREFIX)]
    for j, e in enumerate(model['dep_entries']):
        _render_entry(parts, e, j, 'd', None)
    parts.append('</namespace>\n</repository>\n')
    return ''.join(parts)


# ------------------------------------------------------------------ probes
def _mutate(op, s, p, c):
    if op == 'lit' or not s:
        return c
    p = p % len(s)
    if op == 'sub':
        return s[:p] + c[:1] + s[p + 1:]
    if op == 'ins':
        return s[:p] + c + s[p:]
    if op == 'del':
        return s[:p] + s[p + 1:]
    if op == 'case':
        return s[:p] + s[p].swapcase() + s[p + 1:]
    if op == 'upper':
        return s.upper()
    if op == 'lower':
        return s.lower()
    if op == 'swap':
        return s.swapcase()
    if op == 'pre':
        return s[:p]
    if op == 'suf':
        return s[p + 1:]
    if op == 'dbl':
        return s + s
    if op == 'app':
        return s + c
    if op == 'same':
        return s
    if op == 'long':
        return s * (5000 // len(s) + 2)
    raise HarnessError('unknown probe op %r' % op)


_P_KINDS = ['name', 'name', 'name', 'gtype', 'gtype', 'domain']
_P_OPS = ['sub', 'sub', 'ins', 'ins', 'del', 'del', 'case', 'case', 'upper', 'lower', 'swap', 'pre', 'suf',
          'dbl', 'app', 'same', 'long', 'lit']
_P_CHARS = list(NAME_ALPHA) * 2 + [' ', '\n', '\t', '+', '.', ',', '/', '\u00e9', '\u20ac', '\x01', '\x7f', '%s', '*',
                                   'Foo', 'FooX', 'Zed', 'ZedQ', 'ZedD', 't', 'dom:', '-quark', ' error <&"\u00e9>', 'xyzzy', 'Q']


def derived_probes(pseed, count):
    """`count` probe descriptions derived from one integer (same shape as the explicit ones)."""
    out = []
    for j in range(count):
        hh = hashlib.sha256(('probe/%d/%d' % (pseed, j)).encode()).digest()
        out.append({'k': _P_KINDS[hh[0] % len(_P_KINDS)], 'src': _P_KINDS[hh[1] % len(_P_KINDS)], 'op': _P_OPS[hh[2] % len(_P_OPS)],
                    'i': int.from_bytes(hh[3:6], 'big'), 'p': int.from_bytes(hh[6:8], 'big'), 'c': _P_CHARS[hh[8] % len(_P_CHARS)]})
    return out


def _strided(keys, cap):
    if len(keys) <= cap:
        return list(keys)
    step = len(keys) / float(cap)
    return [keys[int(i * step)] for i in range(cap)]


def build_probes(case, model):
    """-> (by-name keys, by-gtype keys, by-domain keys): ordered, distinct, never containing NUL."""
    names = [e['name'] for e in model['entries']]
    gt = list(model['gtypes'])
    dm = list(model['domains'])
    src = {'name': names, 'gtype': gt or names, 'domain': dm or names}
    out = {'name': list(names), 'gtype': _strided(gt, PRESENT_CAP), 'domain': _strided(dm, PRESENT_CAP)}
    pf = model['prefixes'][0]
    for k, keys in (('name', names), ('gtype', gt), ('domain', dm)):
        for key in keys[:4] + keys[-2:]:
            out[k] += [key.swapcase(), key.upper(), key.lower(), key + ' ', key[:-1]]
    out['name'] += [''] + model['xrefs'] + [e['name'] for e in model['dep_entries']]
    out['gtype'] += ['', 'GObject', 'gchararray', 'GBoxed', pf + 'Nope', pf + 'nope', DEP_PREFIX + 'Nope', pf, 'G', 'ab']
    out['gtype'] += list(model['dep_gtypes'])[:20]
    # the third literal is the text found at byte 1 of every typelib (the tail of the magic and the major version)
    out['domain'] += ['', 'g-io-error-quark', '-quark', 'OBJ\nMETADATA\r\n\x1a\x04'] + list(model['dep_domains'])[:20]
    # small sets are cheap and are the ones where cmph answers out of range: four times the probes
    for pr in list(case['probes']) + derived_probes(case['pseed'], case['pn'] * (4 if len(names) < 50 else 1)):
        pool = src[pr['src']]
        s = pool[pr['i'] % len(pool)]
        key = _mutate(pr['op'], s, pr['p'], pr['c'])
        if '\x00' in key:
            continue
        out[pr['k']].append(key)
    res = []
    for k in ('name', 'gtype', 'domain'):
        seen = set()
        lst = []
        for key in out[k]:
            if key not in seen:
                seen.add(key)
                lst.append(key)
        res.append(lst)
    return res


# ------------------------------------------------------------------ running the driver
def _hex(s):
    h = s.encode('utf-8').hex()
    return h or '-'


def _unhex(h):
    return bytes.fromhex(h).decode('utf-8', 'surrogateescape') if h is not None else None


def _abort_summary(err):
    lines = [l for l in err.splitlines() if l.strip()]
    key = [l for l in lines if ('ERROR' in l or 'runtime error' in l or 'SUMMARY' in l or 'fatal' in l or 'assertion' in l)]
    return ' | '.join((key or lines)[:4])[:700]


def run_lookups(b, ns, probes, sections, n_present_names, history=None):
    """One driver process.  sections: [(label, repository number, dependency typelib, main typelib,
    cap on present by-name probes or None)] -> {label: [(cmd, key, result)]} (the two loads first)."""
    cmds = []
    for label, r, dep_path, main_path, name_cap in sections:
        names, gts, dms = probes
        if name_cap is not None and n_present_names > name_cap:
            names = _strided(names[:n_present_names], name_cap) + names[n_present_names:]
        hist = history.get(label, {}) if history else {}
        cmds += [(label, r, 'load', dep_path)]
        if hist.get('premiss'):
            # the repository is asked for the GTypes before the namespace that defines them is loaded (after its
            # dependency): it remembers them as unknown, and must forget that when the namespace arrives, eagerly
            # or lazily
            cmds += [(label + ':pre', r, 'premiss', k) for k in gts if k not in hist.get('exclude', ())]
        cmds += [(label, r, 'load', main_path + (' 1' if hist.get('lazy') else ''))]
        cmds += [(label, r, 'name', k) for k in names] + [(label, r, 'gtype', k) for k in gts] + [(label, r, 'domain', k) for k in dms]
    script = ''.join(('load %d %s\n' % (r, a)) if c == 'load' else ('%s %d %s %s\n' % (c, r, ns, _hex(a))) for l, r, c, a in cmds)
    rc, out, err = b.run([b.driver('lookup')], input=script, timeout=900)
    lines = out.splitlines()
    if rc != 0 or len(lines) != len(cmds):
        at = cmds[min(len(lines), len(cmds) - 1)]
        what = 'hang' if rc == -9 else 'crash'
        raise Violation('lookup-%s:%s:%s' % (what, at[2], at[0]),
                        'driver exit %d after %d of %d commands; at %s %r: %s'
                        % (rc, len(lines), len(cmds), at[2], at[3][:200], _abort_summary(err)))
    res = {}
    for (label, r, c, a), line in zip(cmds, lines):
        try:
            rr = json.loads(line)
        except ValueError:
            raise HarnessError('lookup driver printed a non-JSON line: %r' % line[:300])
        if rr.get('cmd') != c or ('error' in rr and c != 'load'):
            raise HarnessError('lookup driver: %r for command %s %r' % (line[:300], c, a[:100]))
        if rr['log']:
            raise Violation('glib-diagnostic:%s:%s' % (c, label),
                            '%s %r logged %r' % (c, a[:200], [_unhex(x) for x in rr['log']][:3]))
        res.setdefault(label, []).append((c, a, rr))
    return res


def _ent(r):
    e = r['entry']
    if e is None:
        return None
    if e.get('index') is None:
        return ('outside-directory', e.get('delta'))
    return (e['index'], _unhex(e['name']), e['blob_type'], e['local'])


def _info(r):
    i = r['repo']
    if i is None or i == 'skipped':
        return i
    return (i['type'], _unhex(i.get('name')), _unhex(i.get('ns')))


# ------------------------------------------------------------------ the oracle
def check_case(case, ctx):
    b = _build()
    model = build_model(case)
    if model is None:
        from vlib.runner import Discard
        raise Discard()
    n = len(model['entries'])
    d = ctx.mkscratch()
    ns, dep_ns = model['ns'], model['dep_ns']
    dep_gir = os.path.join(d, '%s-1.0.gir' % dep_ns)
    main_gir = os.path.join(d, '%s-1.0.gir' % ns)
    dep_tl = os.path.join(d, '%s-1.0.typelib' % dep_ns)
    main_tl = os.path.join(d, '%s-1.0.typelib' % ns)
    noidx_tl = os.path.join(d, 'noindex-%s-1.0.typelib' % ns)
    for p in (dep_tl, main_tl, noidx_tl):
        if os.path.exists(p):
            os.unlink(p)
    with open(dep_gir, 'w', encoding='utf-8') as f:
        f.write(render_dep(model))
    with open(main_gir, 'w', encoding='utf-8') as f:
        f.write(render_main(model))
    rc, out, err = b.compile_gir(dep_gir, dep_tl, includedirs=[d])
    if rc != 0:
        raise Violation('compile-failed:dependency', 'exit %d: %s' % (rc, _abort_summary(err)))
    rc, out, err = b.compile_gir(main_gir, main_tl, includedirs=[d], timeout=900)
    if rc != 0:
        if 'gthash.c' in err and 'len >= builder->packed_size' in err and n >= 27000:
            # 2 bytes per entry plus the packed hash function exceed the guint16 `required_size`
            # of girmodule.c:add_directory_index_section
            if ctx.known('compiler-abort:dirindex-size-overflow'):
                return
            raise Violation('compiler-abort:dirindex-size-overflow',
                            '%d entries: exit %d: %s' % (n, rc, _abort_summary(err)))
        raise Violation('compile-failed:main', '%d entries, exit %d: %s' % (n, rc, _abort_summary(err)))

    # ---- the decoder's view against the generated model
    data = open(main_tl, 'rb').read()
    try:
        t = typelib.Typelib(data)
    except typelib.FormatError as e:
        raise Violation('typelib-undecodable', str(e)[:400])
    probs = [p for p in t.check_invariants() if 'directory index' in p or 'directory-index' in p or 'section' in p]
    if probs:
        raise Violation('directory-index-layout', '; '.join(probs)[:400])
    h = t.header
    if h['n_local_entries'] != n:
        raise Violation('entries-differ-from-gir', 'n_local_entries=%d, the GIR has %d entries' % (h['n_local_entries'], n))
    if h['c_prefix'] != ','.join(model['prefixes']):
        raise Violation('entries-differ-from-gir', 'c_prefix %r' % h['c_prefix'])
    dec_index = {}
    for e in t.entries[:n]:
        m = model['by_name'].get(e['name'])
        if m is None or not e['local'] or e['name'] in dec_index:
            raise Violation('entries-differ-from-gir', 'directory entry %d %r local=%r is unexpected' % (e['index'], e['name'][:80], e['local']))
        blob = e['blob']
        got = (e['blob_type'], blob.get('gtype_name'), blob.get('error_domain'))
        if got != (BLOB[m['blob']], m['gtype'], m['domain']):
            raise Violation('entries-differ-from-gir', 'entry %r: decoded %r, generated %r' % (e['name'][:80], got, (BLOB[m['blob']], m['gtype'], m['domain'])))
        dec_index[e['name']] = e['index']
    nonlocal_names = sorted(e['name'] for e in t.entries[n:])
    if any(e['local'] for e in t.entries[n:]) or nonlocal_names != model['xrefs']:
        raise Violation('entries-differ-from-gir', 'non-local entries %r, expected %r' % (nonlocal_names[:10], model['xrefs'][:10]))
    has_index = t.directory_index is not None
    if has_index:
        if t.directory_index['end'] > len(data):
            raise Violation('directory-index-layout', 'table ends at %d in a file of %d bytes' % (t.directory_index['end'], len(data)))
        # the copy without the index: overwrite the section id with GI_SECTION_END
        at = None
        p = h['sections']
        while True:
            sid = int.from_bytes(data[p:p + 4], 'little')
            if sid == typelib.GI_SECTION_END:
                break
            if sid == typelib.GI_SECTION_DIRECTORY_INDEX:
                at = p
                break
            p += typelib.L_SECTION.size
        if at is None:
            raise HarnessError('decoder found an index section, the patcher did not')
        patched = data[:at] + (typelib.GI_SECTION_END).to_bytes(4, 'little') + data[at + 4:]
        t2 = typelib.Typelib(patched)
        if t2.directory_index is not None or t2.sections:
            raise HarnessError('patched copy still has sections: %r' % t2.sections)
        with open(noidx_tl, 'wb') as f:
            f.write(patched)
    else:
        ctx.label('compiler-wrote-no-index')

    probes = build_probes(case, model)
    if has_index:
        sections = [('index', 0, dep_tl, main_tl, None), ('linear', 1, dep_tl, noidx_tl, LINEAR_NAME_CAP)]
    else:
        sections = [('linear', 0, dep_tl, main_tl, LINEAR_NAME_CAP)]
    ps = int(case.get('pseed', 0))
    history = {sections[0][0]: {'premiss': ps % 3 != 1, 'lazy': ps % 2 == 1}}
    if len(sections) > 1:
        history[sections[1][0]] = {'premiss': ps % 3 == 1, 'lazy': (ps // 2) % 2 == 1}
    for lab, hh in history.items():
        # GType names the dependency defines too (decoys) would be found there and legitimately remembered
        hh['exclude'] = set(model['dep_gtypes'])
        ctx.label('history:%s%s' % ('premiss+' if hh['premiss'] else '', 'lazy' if hh['lazy'] else 'eager'))
    by_label = run_lookups(b, ns, probes, sections, n, history)
    for lab in list(by_label):
        if lab.endswith(':pre'):
            for c, key, r in by_label[lab]:
                inf = _info(r)
                if inf not in (None, 'skipped') and inf[2] != dep_ns:
                    raise Violation('find-by-gtype:found-before-load', 'GType %r reported as %r before its namespace was loaded' % (key[:120], inf))
    runs = [(sec[0], by_label[sec[0]]) for sec in sections]
    boxed_excluded = None

    absent_in_range = absent_clamped = 0
    n_absent = {'name': 0, 'gtype': 0, 'domain': 0}
    n_present = {'name': 0, 'gtype': 0, 'domain': 0}
    seen_decoy = seen_nonlocal_probe = seen_foreign = False
    for path, results in runs:
        c0, a0, r0 = results[0]
        c1, a1, r1 = results[1]
        if not r0.get('ok') or not r1.get('ok'):
            bad = r0 if not r0.get('ok') else r1
            raise Violation('load-failed:' + path, 'stage %s: %s' % (bad.get('stage'), _unhex(bad.get('error'))))
        if _unhex(r1['ns']) != ns or r1['n_local_entries'] != n or r1['n_entries'] != h['n_entries']:
            raise Violation('load-failed:' + path, 'loaded header says %r' % r1)
        if r1['has_index'] != (path == 'index'):
            raise Violation('index-section-presence:' + path, 'driver sees has_index=%r' % r1['has_index'])
        for c, key, r in results[2:]:
            ent = _ent(r)
            info = _info(r)
            short = key[:120]
            if c == 'name':
                m = model['by_name'].get(key)
                if m is None:
                    n_absent[c] += 1
                    if key in model['xrefs']:
                        seen_nonlocal_probe = True
                    if ent is not None:
                        kind = 'non-local-entry-returned' if (len(ent) == 4 and not ent[3]) else 'absent-found'
                        raise Violation('by-name:%s:%s' % (kind, path), 'probe %r (not an entry of %d) returned %r' % (short, n, ent))
                    if info is not None:
                        raise Violation('find-by-name:absent-found:' + path, 'probe %r returned %r' % (short, info))
                    if path == 'index':
                        if r['raw'] < n:
                            absent_in_range += 1
                        else:
                            absent_clamped += 1
                else:
                    n_present[c] += 1
                    want = (dec_index[key], key, BLOB[m['blob']], 1)
                    if ent is None:
                        raise Violation('by-name:present-not-found:' + path, 'entry %r (%d of %d, %s) not found' % (short, want[0], n, m['blob']))
                    if ent != want:
                        raise Violation('by-name:wrong-entry:' + path, 'probe %r: expected %r, got %r' % (short, want, ent))
                    if info != (BLOB[m['blob']], key, ns):
                        raise Violation('find-by-name:disagrees:' + path, 'probe %r: entry %r but g_irepository_find_by_name gave %r' % (short, want, info))
                    if path == 'index' and r['slot'] != want[0] - 1:
                        raise Violation('hash-search:wrong-slot', 'probe %r: _gi_typelib_hash_search gave %r, entry is at %d' % (short, r['slot'], want[0] - 1))
            elif c == 'gtype':
                m = model['gtypes'].get(key)
                if r['matches_prefix'] != prefix_matches(model['prefixes'], key):
                    raise Violation('gtype-prefix-rule', 'prefixes %r, name %r: g_typelib_matches_gtype_name_prefix says %r'
                                    % (model['prefixes'], short, r['matches_prefix']))
                if m is None:
                    n_absent[c] += 1
                    if ent is not None:
                        raise Violation('by-gtype-name:absent-found:' + path, 'probe %r returned %r' % (short, ent))
                else:
                    n_present[c] += 1
                    want = (dec_index[m['name']], m['name'], BLOB[m['blob']], 1)
                    if ent is None and m['blob'] == 'boxed' and (info in (None, 'skipped') or info[2] == dep_ns):
                        # BLOB_IS_REGISTERED_TYPE leaves BLOB_TYPE_BOXED out: <glib:boxed> entries are never searched
                        if boxed_excluded is None:
                            boxed_excluded = ctx.known('by-gtype-name:boxed-not-searched')
                        if boxed_excluded:
                            continue
                        raise Violation('by-gtype-name:boxed-not-searched', 'GType name %r of <glib:boxed> entry %r is not found by '
                                        'g_typelib_get_dir_entry_by_gtype_name / g_irepository_find_by_gtype (%s)' % (short, m['name'][:80], path))
                    if ent is None:
                        raise Violation('by-gtype-name:present-not-found:' + path, 'GType name %r of entry %r not found' % (short, m['name'][:80]))
                    if ent != want:
                        raise Violation('by-gtype-name:wrong-entry:' + path, 'probe %r: expected %r, got %r' % (short, want, ent))
                if info == 'skipped':
                    if r['gtype'] != 'unregistrable':
                        raise HarnessError('GLib refused to register type name %r' % key)
                    continue
                cands = []
                if m is not None:
                    cands.append((prefix_matches(model['prefixes'], key), (BLOB[m['blob']], m['name'], ns)))
                if key in model['dep_gtypes']:
                    dn = model['dep_gtypes'][key]
                    de = [x for x in model['dep_entries'] if x['name'] == dn][0]
                    cands.append((prefix_matches([DEP_PREFIX], key), (BLOB[de['blob']], dn, dep_ns)))
                    if key.startswith(DEP_PREFIX):
                        seen_foreign = True
                if len(cands) == 2:
                    seen_decoy = True
                    if cands[0][0] != cands[1][0]:
                        cands = [x for x in cands if x[0]]
                allowed = [x[1] for x in cands]
                if not allowed:
                    if info is not None:
                        raise Violation('find-by-gtype:absent-found:' + path, 'GType %r is in no loaded namespace, got %r' % (short, info))
                elif info is None:
                    raise Violation('find-by-gtype:present-not-found:' + path, 'GType %r (%s): expected %r' % (short, r['gtype'], allowed))
                elif info not in allowed:
                    raise Violation('find-by-gtype:wrong-entry:' + path, 'GType %r: expected one of %r, got %r' % (short, allowed, info))
            else:
                m = model['domains'].get(key)
                if m is None:
                    n_absent[c] += 1
                    if ent is not None:
                        raise Violation('by-error-domain:absent-found:' + path, 'probe %r returned %r' % (short, ent))
                else:
                    n_present[c] += 1
                    want = (dec_index[m['name']], m['name'], BLOB['enum'], 1)
                    if ent is None:
                        raise Violation('by-error-domain:present-not-found:' + path, 'domain %r of entry %r not found' % (short, m['name'][:80]))
                    if ent != want:
                        raise Violation('by-error-domain:wrong-entry:' + path, 'probe %r: expected %r, got %r' % (short, want, ent))
                allowed = []
                if m is not None:
                    allowed.append((BLOB['enum'], m['name'], ns))
                if key in model['dep_domains']:
                    allowed.append((BLOB['enum'], model['dep_domains'][key], dep_ns))
                if not allowed:
                    if info is not None:
                        raise Violation('find-by-error-domain:absent-found:' + path, 'domain %r is in no loaded namespace, got %r' % (short, info))
                elif info is None:
                    raise Violation('find-by-error-domain:present-not-found:' + path, 'domain %r: expected %r' % (short, allowed))
                elif info not in allowed:
                    raise Violation('find-by-error-domain:wrong-entry:' + path, 'domain %r: expected one of %r, got %r' % (short, allowed, info))

    # ---- coverage bookkeeping
    ctx.label('n<50' if n < 50 else 'n>=50')
    if n >= 1000:
        ctx.label('n>=1000')
    if n == 1:
        ctx.label('n==1')
    if model['xrefs']:
        ctx.label('has-nonlocal-entries')
    if seen_nonlocal_probe:
        ctx.label('nonlocal-name-probed')
    if model['gtypes']:
        ctx.label('has-gtypes')
    if model['domains']:
        ctx.label('has-error-domains')
    if seen_decoy:
        ctx.label('same-gtype-in-two-namespaces')
    if seen_foreign:
        ctx.label('foreign-prefix-gtype')
    if len(model['prefixes']) > 1:
        ctx.label('several-c-prefixes')
    if absent_in_range:
        ctx.label('absent-probe-hashed-into-table')
    if absent_clamped:
        ctx.label('absent-probe-clamped')
    ex = ctx.extra.setdefault('probe_counts', {})
    for k in n_present:
        ex['present-' + k] = ex.get('present-' + k, 0) + n_present[k]
        ex['absent-' + k] = ex.get('absent-' + k, 0) + n_absent[k]
    ex['absent-name-hashed-into-table'] = ex.get('absent-name-hashed-into-table', 0) + absent_in_range
    ex['absent-name-clamped'] = ex.get('absent-name-clamped', 0) + absent_clamped
    if n >= 50 and absent_in_range and has_index:
        ctx.note_nontrivial(case)
        ctx.sample({'entries': n, 'first_names': [e['name'][:40] for e in model['entries'][:6]],
                    'kinds': case['kinds'], 'prefixes': case['prefixes'], 'probes': sum(len(p) for p in probes)}, 4)


# ------------------------------------------------------------------ generators
_ident_lower = st.text(alphabet=st.sampled_from('abcdefghijklmnopqrstuvwxyz_'), min_size=1, max_size=14)
_ident_any = st.text(alphabet=st.sampled_from(NAME_ALPHA), min_size=1, max_size=10)
_name = st.one_of(_ident_lower, _ident_lower, _ident_any, st.sampled_from(ODD_NAMES),
                  st.text(alphabet=st.sampled_from('aA_-0'), min_size=1, max_size=4))
_pre = st.one_of(st.sampled_from(['', 'item', 'foo_bar_', 'get_', 'A', LONG_A, LONG_A * 5, 'x' * 300]), _ident_lower)
_suf = st.one_of(st.sampled_from(['', '', '_t', '_new', LONG_B, '-', 'Z' * 100]), _ident_lower)
_probe_char = st.one_of(st.sampled_from(list(NAME_ALPHA)), st.sampled_from(list(NAME_ALPHA)),
                        st.sampled_from([' ', '\n', '\t', '+', '.', ',', '/', 'é', '€', '\x01', '\x7f', '%s', '*']))
_literal = st.one_of(st.text(alphabet=st.sampled_from(NAME_ALPHA + ' .+\né'), min_size=0, max_size=20),
                     st.text(min_size=0, max_size=8).map(lambda s: s.replace('\x00', '0').encode('utf-8', 'replace').decode('utf-8')),
                     st.sampled_from(['Foo', 'FooX', 'Zed', 'ZedQ', 'ZedD', 't', 'dom:', '-quark', ' error <&"é>']))


@st.composite
def _family(draw, budget):
    kind = draw(st.sampled_from(['explicit', 'explicit', 'seq', 'seq', 'seq', 'chain', 'suffixes', 'onechar', 'hash', 'long']))
    if kind == 'explicit':
        return {'f': 'explicit', 'names': draw(st.lists(_name, min_size=1, max_size=max(1, min(12, budget)), unique=True))}
    if kind == 'seq':
        return {'f': 'seq', 'pre': draw(_pre), 'suf': draw(_suf), 'start': draw(st.sampled_from([0, 1, 9, 95, 999, 65530, 10 ** 9])),
                'count': draw(st.integers(1, max(1, budget))), 'base': draw(st.sampled_from([10, 10, 16, 36])),
                'pad': draw(st.sampled_from([0, 0, 4, 8]))}
    if kind == 'chain':
        return {'f': 'chain', 's': draw(st.one_of(st.text(alphabet=st.sampled_from(NAME_ALPHA), min_size=2, max_size=max(2, min(80, budget))),
                                                  st.sampled_from(['a' * 60, 'ab' * 30, '_' * 40])).map(lambda s: s[:max(2, budget)]))}
    if kind == 'suffixes':
        return {'f': 'suffixes', 's': draw(st.text(alphabet=st.sampled_from(NAME_ALPHA), min_size=2, max_size=max(2, min(80, budget))))}
    if kind == 'onechar':
        return {'f': 'onechar', 's': draw(st.one_of(_ident_lower, st.sampled_from([LONG_A, 'x', 'get_value_at']))), 'pos': draw(st.integers(0, 300))}
    if kind == 'hash':
        return {'f': 'hash', 'seed': draw(st.integers(0, 2 ** 32)), 'count': draw(st.integers(1, max(1, budget))),
                'len': draw(st.sampled_from([1, 2, 3, 8, 12, 24, 64]))}
    return {'f': 'long', 'pre': draw(st.sampled_from(['a', 'ab', 'name_', 'x-y_'])), 'n': draw(st.sampled_from([200, 1000, 2040, 2046, 2047, 3000])),
            'count': draw(st.integers(1, max(1, min(20, budget)))), 'tailfirst': draw(st.booleans())}


_probe = st.fixed_dictionaries({
    'k': st.sampled_from(['name', 'name', 'name', 'gtype', 'gtype', 'domain']),
    'src': st.sampled_from(['name', 'name', 'name', 'gtype', 'gtype', 'domain']),
    'op': st.sampled_from(['sub', 'sub', 'ins', 'ins', 'del', 'del', 'case', 'case', 'upper', 'lower', 'swap', 'pre', 'suf',
                           'dbl', 'app', 'same', 'long', 'lit']),
    'i': st.integers(0, 70000), 'p': st.integers(0, 2100), 'c': st.one_of(_probe_char, _probe_char, _literal),
})


def _rot(draw, seq, salt):
    """An element of seq; the all-minimal draw (which Hypothesis tries first in every shard) gives a
    different element per shard."""
    return seq[(draw(st.integers(0, len(seq) - 1)) + salt) % len(seq)]


_SCALES = ['medium', 'small', 'large', 'small', 'medium', 'tiny', 'medium', 'large', 'small']
_KIND_POOL = ['record-g', 'enum-gd', 'class-xparent', 'function', 'record-xref', 'enum-d'] + KIND_NAMES


@st.composite
def _case(draw, cap, salt=0):
    scale = _rot(draw, _SCALES, salt)
    lo, hi = {'tiny': (1, 6), 'small': (7, 49), 'medium': (50, 400), 'large': (401, cap)}[scale]
    hi = min(hi, cap)
    lo = min(lo, hi)
    target = lo + (draw(st.integers(0, hi - lo)) + 37 * salt) % (hi - lo + 1)
    fams = []
    if scale in ('medium', 'large'):
        # one family carries the bulk so that the size class is reached
        bulk = _rot(draw, ['seq', 'hash', 'seq'], salt)
        if bulk == 'seq':
            fams.append({'f': 'seq', 'pre': draw(_pre), 'suf': draw(_suf), 'start': draw(st.sampled_from([0, 1, 95, 65530])),
                         'count': target, 'base': _rot(draw, [10, 16, 36], salt), 'pad': draw(st.sampled_from([0, 6]))})
        else:
            fams.append({'f': 'hash', 'seed': draw(st.integers(0, 2 ** 32)), 'count': target, 'len': _rot(draw, [8, 3, 12, 24], salt)})
        extra = draw(st.lists(_family(min(target, 80)), min_size=0, max_size=3))
    else:
        extra = draw(st.lists(_family(target), min_size=1, max_size=3))
        # make sure the size class is reached when the drawn families are small
        fams.append({'f': 'hash', 'seed': salt, 'count': target, 'len': _rot(draw, [2, 6, 1, 12], salt)})
    fams = extra + fams if draw(st.booleans()) else fams + extra
    ns = _rot(draw, NS_NAMES, salt)
    dep_ns = _rot(draw, [x for x in DEP_NS_NAMES if x != ns], salt)
    kinds = [_KIND_POOL[(k + 5 * salt + 3 * j) % len(_KIND_POOL)]
             for j, k in enumerate(draw(st.lists(st.integers(0, len(_KIND_POOL) - 1), min_size=2, max_size=8)))]
    dep_names = draw(st.lists(st.one_of(st.sampled_from(['Obj', 'Rec', 'a', 'A', 'item0', 'item1', 'new', '0']), _ident_lower),
                              min_size=2, max_size=5, unique=True))
    return {
        'ns': ns, 'prefixes': _rot(draw, PREFIX_SETS, salt), 'families': fams, 'cap': target if scale in ('tiny', 'small') else cap,
        'kinds': kinds,
        'gstyles': [_rot(draw, GSTYLES, salt + j) for j in range(draw(st.integers(1, 4)))],
        'dstyles': [_rot(draw, DSTYLES, salt + j) for j in range(draw(st.integers(1, 3)))],
        'dep': {'ns': dep_ns, 'names': dep_names,
                'gdecoys': draw(st.lists(st.integers(0, 70000), min_size=1, max_size=4)),
                'ddecoys': draw(st.lists(st.integers(0, 70000), min_size=0, max_size=2))},
        'probes': draw(st.lists(_probe, min_size=0, max_size=10)),
        'pseed': draw(st.integers(0, 2 ** 32)), 'pn': draw(st.integers(20, 150)),
    }


BIG_SIZES = [10000, 20000, 27000, 40000, 65535]


def _big_case(n, seed):
    """A fixed large set: half numbered names with a shared prefix, half hash-derived names."""
    return {'ns': 'Big', 'prefixes': ['Big', 'Foo'],
            'families': [{'f': 'seq', 'pre': 'entry_', 'suf': '', 'start': 0, 'count': n // 2, 'base': 10, 'pad': 0},
                         {'f': 'hash', 'seed': seed, 'count': n - n // 2, 'len': 10}],
            'cap': n, 'kinds': ['function', 'record-g', 'enum-gd', 'constant', 'record-xref' if n <= 60000 else 'record', 'flags-g', 'enum-d', 'callback'],
            'gstyles': ['px', 'p'], 'dstyles': ['quark', 'colon'],
            'dep': {'ns': 'Dep', 'names': ['Obj', 'Rec'], 'gdecoys': [1, 500], 'ddecoys': [3]}, 'probes': [], 'pseed': seed, 'pn': 200}


def plan(tier):
    if tier == 'quick':
        return [{'n': 4, 'cap': 3000} for i in range(16)]
    specs = [{'n': 60, 'cap': 3000, 'big': BIG_SIZES[i], 'seed': i + 1} for i in range(5)]
    specs += [{'n': 150, 'cap': 3000} for i in range(11)]
    return specs


def run_shard(ctx, spec):
    # every evaluation starts three sanitizer-instrumented processes: bound the time spent shrinking
    import hypothesis.internal.conjecture.engine as engine
    engine.MAX_SHRINKING_SECONDS = 40 if ctx.tier == 'quick' else 150
    if spec.get('big'):
        ctx.run_case(_big_case(spec['big'], spec['seed']), reraise=False)
    if spec['n']:
        ctx.hyp(_case(spec['cap'], ctx.shard), spec['n'])


def health(agg, tier):
    ev = max(1, agg['evals'])
    lab = agg['labels']
    probs = []
    for name, frac in (('n>=50', 0.3), ('n<50', 0.1), ('n>=1000', 0.02), ('has-nonlocal-entries', 0.25),
                       ('nonlocal-name-probed', 0.25), ('has-gtypes', 0.5), ('has-error-domains', 0.25),
                       ('same-gtype-in-two-namespaces', 0.15), ('several-c-prefixes', 0.3),
                       ('absent-probe-hashed-into-table', 0.5), ('absent-probe-clamped', 0.02)):
        if lab.get(name, 0) < frac * ev:
            probs.append('%s in %d of %d cases' % (name, lab.get(name, 0), ev))
    if len(agg['nontrivial']) < 0.25 * ev:
        probs.append('only %d non-trivial of %d' % (len(agg['nontrivial']), ev))
    if agg['discards'] > 0.1 * ev:
        probs.append('discard rate %d/%d' % (agg['discards'], ev))
    return probs
