"""C05 - everything left introspectable is bindable and every reference resolves.

(a) hostile API descriptions (vlib/apigen.py) through the real pipeline; (b) every GIR file
in the repository. Oracle: vlib/gircheck.py, a structural validator over GIR XML written from
the property statement, independent of giscanner.
"""
import glob
import re
import os

from hypothesis import strategies as st

from vlib import pipeline, apigen, gircheck, cmodel
from vlib.runner import Violation, Discard, crash_clause, REPO, VERIF

ID = 'C05'
LEVEL = 'exploration'
RULE = ('(a) Hypothesis-generated namespaces in hostile mode: callables (functions, methods, constructors, callback typedefs, '
        'virtual methods, inline functions) over ~60 parameter kinds incl. unresolved/foreign/skipped types, aliases of aliases '
        'of va_list / long long / unresolved types in both declaration orders, varargs, containers without element types, bare '
        'struct returns, callback-typed fields, GObject properties and signals naming hidden types, with randomly drawn (valid '
        'or not) annotations; (b) every *.gir under tests/scanner and gir/. non-trivial = the output has at least one demoted '
        '(introspectable="0") element AND an introspectable element that references an in-namespace type; distinct = hash of the case')
RULE = RULE + ' ' + 'The generator also draws property accessor methods with (set-property)/(get-property)/(setter)/(getter) annotations naming the same, another or a missing target, callback chains whose last link is unbindable, a second interface with drawn prerequisites, and twin callables differing in one annotation detail.'
ASSUMPTIONS = [
    'substrate P: cmodel.to_symbols mirrors scannerparser.y (calibrated by tools/calibrate_p.py)',
    'include namespaces for generated cases are the small fixture GIRs; for shipped files names come from gir/, tests/scanner and '
    'the system-typelib-derived GIRs when present; a reference into a namespace without data is counted as unverifiable',
    'an alias naming a bare container (typedef GPtrArray FooAlias) is not required to state an element type '
    '(Regress-1.0-expected.gir ships one)',
]
TECHNIQUE = 'property-based testing (Hypothesis) with a hostile API generator on the scanner pipeline + replay of all repository GIR files; independent structural validator as oracle'
LEVEL_TEXT = ('Randomised search for a scanner input whose emitted GIR violates a structural invariant, plus a fixed sweep over the '
              'shipped GIR files. The validator is written from the statement; it never consults giscanner.')
LEVEL_NOTE = 'trusts the symbol-tree model of the C front end and the fixture GIRs; shipped files referencing namespaces without data are only partly verifiable (counted)'
DESIGN_REF = 'DESIGN.md section 2, C05'


def _include_dirs():
    dirs = [pipeline.FIXTURES]
    return dirs


def _shipped_dirs():
    dirs = [os.path.join(REPO, 'gir'), os.path.join(REPO, 'tests', 'scanner')]
    sg = os.path.join(VERIF, '.build', 'sysgir')
    if os.path.isdir(sg):
        for d in sorted(os.listdir(sg)):
            dirs.append(os.path.join(sg, d))
    dirs.append(pipeline.FIXTURES)
    return dirs


def check_case(case, ctx):
    if case.get('kind') == 'file':
        path = os.path.join(REPO, case['path'])
        probs, stats = gircheck.check(path, _shipped_dirs())
        ctx.label('shipped-file')
        if stats['unverifiable_refs']:
            ctx.label('shipped-file-with-unverifiable-refs')
        ctx.extra.setdefault('shipped', {})[case['path']] = {'introspectable': stats['introspectable_elements'],
                                                             'unverifiable_refs': stats['unverifiable_refs']}
        if stats['demoted_elements'] and stats['local_type_refs']:
            ctx.note_nontrivial(case)
        for clause, detail in probs:
            raise Violation('shipped:' + clause, '%s: %s' % (case['path'], detail))
        return
    try:
        res = pipeline.run(case, ctx.mkscratch())
    except Exception as e:
        raise Violation(crash_clause(e), repr(e))
    if res.fatal is not None:
        if apigen.expects_fatal(case):
            ctx.label('deliberate-fatal')
            if 'Traceback' in res.fatal:
                raise Violation('fatal-with-traceback', res.fatal[:300])
            raise Discard()
        raise Violation('fatal-on-valid-input', res.fatal[:400])
    probs, stats = gircheck.check(res.gir, _include_dirs())
    if stats['missing_includes']:
        raise Violation('harness:missing-include', str(stats['missing_includes']))
    for clause, detail in probs:
        raise Violation(clause, detail + '\n--- header ---\n' + cmodel.to_header_text(case['decls'])[-1500:]
                        + '\n--- comments ---\n' + '\n'.join(c[0] for c in case['comments'])[:1500])
    ctx.label('demoted' if stats['demoted_elements'] else 'nothing-demoted')
    if stats['demoted_elements'] and stats['local_type_refs']:
        ctx.note_nontrivial(case)
        ctx.sample({'header': cmodel.to_header_text(case['decls'])[-700:], 'comments': [c[0] for c in case['comments']][:2],
                    'demoted': stats['demoted_elements'], 'introspectable': stats['introspectable_elements']}, 3)
    for c in case['meta']['callables']:
        ctx.label('shape:' + c['shape'])


CONTAINER_KINDS = ('GList*', 'GSList*', 'GHashTable*', 'GArray*', 'GPtrArray*')


def known_shape(case, v):
    if v.clause == 'container-without-element-type' and case.get('meta'):
        # same root cause as the C07 finding: an unresolvable (type X) annotation on a container value
        for c in case['meta']['callables']:
            for nm, k in list(zip(c['names'], c['kinds'])) + [('Returns', c['ret'])]:
                if k in CONTAINER_KINDS and any(a.startswith('(type ') for a in c['ann'].get(nm, [])):
                    return 'container-without-element-type:unresolvable-type-annotation'
    if v.clause == 'exception:ValueError@giscanner/ast.py:get_parameter_index' and case.get('meta'):
        # an annotation names a parameter that the scanner takes out of the parameter list before the GIR is
        # written: the trailing GError** (-> throws) or the first parameter (-> instance parameter)
        m = re.search(r"Unknown argument (\w+)", v.detail)
        gone = m.group(1) if m else None
        for c in case['meta']['callables']:
            names = list(c['names'])
            removable = set(names[:1])
            if c['kinds'] and c['kinds'][-1] == 'GError**':
                removable.add(names[-1])
            if c['shape'] in ('method-rec', 'method-obj', 'vfunc'):
                removable.add('self')
            if gone not in removable:
                continue
            for anns in c['ann'].values():
                for a in anns:
                    if a in ('(closure %s)' % gone, '(destroy %s)' % gone) or 'length=%s' % gone in a:
                        return 'crash:annotation-references-removed-gerror-parameter'
    return None


def _files():
    out = []
    for pat in ('tests/scanner/*.gir', 'gir/*.gir'):
        for p in sorted(glob.glob(os.path.join(REPO, pat))):
            out.append(os.path.relpath(p, REPO))
    return out


def plan(tier):
    n = 120 if tier == 'quick' else 4000
    return [{'n': n, 'part': i} for i in range(16)]


def run_shard(ctx, spec):
    files = _files()
    for f in files[spec['part']::16]:
        ctx.run_case({'kind': 'file', 'path': f}, reraise=False)
    ctx.hyp(apigen.api(hostile=True), spec['n'])


def health(agg, tier):
    probs = []
    ev = max(1, agg['evals'])
    if agg['labels'].get('demoted', 0) < 0.3 * ev:
        probs.append('demoted elements in only %d of %d cases' % (agg['labels'].get('demoted', 0), ev))
    if agg['labels'].get('shipped-file', 0) < 20:
        probs.append('only %d shipped files checked' % agg['labels'].get('shipped-file', 0))
    if agg['discards'] > 0.2 * ev:
        probs.append('discard rate %d/%d' % (agg['discards'], ev))
    return probs
