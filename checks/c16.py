"""C16 - scanner output is deterministic and independent of irrelevant order.

Byte equality of the emitted GIR under: different PYTHONHASHSEED values (persistent worker
processes, one per hash seed), cold / warm / disabled dependency cache, permutations of the
comment-block list and of the files carrying them, permutations of independent declarations
incl. typedef-before/after-struct (modulo <source-position>, which legitimately moves).
"""
import json
import os
import re
import subprocess
import sys

from hypothesis import strategies as st

from vlib import apigen, cmodel
from vlib.runner import Violation, Discard, HarnessError, VERIF

ID = 'C16'
LEVEL = 'exploration'
RULE = ('Hypothesis-generated full-feature inputs (vlib/apigen: all node kinds, annotations, docs, dump) evaluated in 3 '
        'persistent worker processes with different PYTHONHASHSEED values; per case: base run, comment blocks permuted and spread '
        'over 1-4 source files, cold cache / warm cache / cache disabled, and a permutation of independent declarations (functions, '
        'callbacks, typedef vs struct body order) compared modulo source positions. non-trivial = the namespace has >= 2 comment '
        'blocks AND >= 2 includes/packages or a node with several source positions; distinct = hash of the case')
RULE = RULE + ' ' + 'One case in three adds 1-3 include directories holding an older copy of a dependency before/after the fixture directory (which copy is used may depend on the order given only).'
ASSUMPTIONS = [
    'substrate P: cmodel.to_symbols mirrors scannerparser.y (calibrated by tools/calibrate_p.py)',
    'comment block identifiers are unique within a case (with duplicates "last wins" is documented behaviour)',
    'hash seeds explored: 0, 1 and one derived from the case; the C front end, which does not use Python hashing, is outside',
]
TECHNIQUE = 'property-based testing (Hypothesis), metamorphic: byte equality of the GIR across interpreter hash seeds (separate processes), cache histories and input permutations'
LEVEL_TEXT = 'Randomised metamorphic search; every case is executed 6-7 times under varied irrelevant conditions and the outputs must be byte-identical.'
LEVEL_NOTE = 'trusts the symbol-tree model of the C front end; PYTHONHASHSEED coverage is three values per case'
DESIGN_REF = 'DESIGN.md section 2, C16'

_workers = {}


def _worker(hashseed):
    w = _workers.get(hashseed)
    if w is not None and w.poll() is None:
        return w
    env = dict(os.environ)
    env['PYTHONHASHSEED'] = str(hashseed)
    w = subprocess.Popen([sys.executable, '-B', os.path.join(VERIF, 'vlib', 'pworker.py')], stdin=subprocess.PIPE,
                         stdout=subprocess.PIPE, env=env, text=True, bufsize=1)
    line = w.stdout.readline()
    if not line or not json.loads(line).get('ready'):
        raise HarnessError('pipeline worker did not start')
    _workers[hashseed] = w
    return w


def _ask(hashseed, req):
    w = _worker(hashseed)
    w.stdin.write(json.dumps(req) + '\n')
    w.stdin.flush()
    line = w.stdout.readline()
    if not line:
        _workers.pop(hashseed, None)
        raise HarnessError('pipeline worker died')
    return json.loads(line)


_SRCPOS = re.compile(r'\s*<source-position [^>]*/>\n')
_DOCPOS = re.compile(r'(<doc[a-z-]* xml:space="preserve"\s+filename=")[^"]*("\s+line=")\d+(")')


def _strip_pos(gir):
    return _DOCPOS.sub(r'\1X\2N\3', _SRCPOS.sub('\n', gir))


def _first_diff(a, b):
    la, lb = a.split('\n'), b.split('\n')
    for i, (x, y) in enumerate(zip(la, lb)):
        if x != y:
            return 'line %d: %r vs %r' % (i + 1, x[:160], y[:160])
    return '%d vs %d lines' % (len(la), len(lb))


@st.composite
def _case(draw):
    base = draw(apigen.api(hostile=False, max_callables=5))
    n = len(base['comments'])
    perm = draw(st.permutations(list(range(n)))) if n else []
    files = [draw(st.sampled_from(['/src/foo.c', '/src/bar.c', '/src/a/foo.c', '/src/foo.h'])) for _ in range(n)]
    nd = len(base['decls'])
    dperm_seed = draw(st.integers(0, 10 ** 6))
    base['perm'] = list(perm)
    base['files'] = files
    base['dperm_seed'] = dperm_seed
    base['hashseed3'] = draw(st.integers(2, 4000))
    base['packages'] = draw(st.lists(st.sampled_from(['gobject-2.0', 'gio-2.0', 'foo-1.0', 'zlib']), max_size=3, unique=True))
    base['includes'] = draw(st.sampled_from([['Gio-2.0'], ['Gio-2.0', 'GModule-2.0'], ['GModule-2.0', 'Gio-2.0', 'GObject-2.0'],
                                             ['GLib-2.0', 'Gio-2.0', 'GObject-2.0', 'GModule-2.0']]))
    # prefix configurations: several identifier prefixes, symbol prefixes given or derived from them
    base['ns'] = dict(base['ns'], **draw(st.sampled_from([
        {'id_prefixes': ['Foo'], 'sym_prefixes': ['foo']},
        {'id_prefixes': ['Foo'], 'sym_prefixes': None},
        {'id_prefixes': ['Foo', 'FooX'], 'sym_prefixes': None},
        {'id_prefixes': ['FooX', 'Foo', 'Bar'], 'sym_prefixes': None},
        {'id_prefixes': ['Foo', 'Bar'], 'sym_prefixes': ['foo', 'bar']},
        {'id_prefixes': ['Bar', 'Foo', 'Baz', 'Qux'], 'sym_prefixes': None},
    ])))
    base['c_includes'] = draw(st.lists(st.sampled_from(['foo.h', 'foo-extra.h', 'a.h']), max_size=3, unique=True))
    # several include directories holding different copies of one dependency (build tree next to an installed copy):
    # which copy is used is a function of the ORDER of the directories given, never of the hash seed
    if draw(st.integers(0, 2)) == 0:
        base['shadow_includes'] = draw(st.lists(st.fixed_dictionaries({'pos': st.sampled_from(['before', 'after']),
                                                                        'drop': st.sampled_from(['Thing', 'Id', 'Thing'])}),
                                                min_size=1, max_size=3))
        if 'FooBar-1.0' not in base['includes']:
            base['includes'] = list(base['includes']) + ['FooBar-1.0']
        base['decls'] = list(base['decls']) + [{'d': 'function', 'name': 'foo_use_thing', 'ret': apigen.VOID,
                                                'params': [apigen.param('thing', apigen.T('FooBarThing', 1)),
                                                           apigen.param('id', apigen.T('FooBarId'))]}]
    return base


def _permute_decls(decls, seed):
    """A permutation that keeps every declaration after the ones it depends on: function declarations
    (which only use types, and the generator declares all types before the first function) are permuted
    among their own slots, and a forward typedef may swap with the struct body that directly follows it."""
    out = list(decls)
    slots = [i for i, d in enumerate(out) if d['d'] == 'function' and not d['name'].endswith('_get_type')]
    funcs = [out[i] for i in slots]
    if len(funcs) > 1:
        k = seed % len(funcs)
        funcs = funcs[k:] + funcs[:k]
        if (seed // 7) % 2:
            funcs.reverse()
        for i, f in zip(slots, funcs):
            out[i] = f
    i = 0
    k = seed // 3
    while i < len(out) - 1:
        a, b = out[i], out[i + 1]
        fwd = (a['d'] == 'compound' and b['d'] == 'compound' and a.get('tag') and a.get('tag') == b.get('tag')
               and a.get('fields') is None and a.get('typedef') and b.get('fields') is not None and not b.get('typedef')
               and not _mentions(b, a['typedef']))
        if fwd and (k % 2):
            out[i], out[i + 1] = b, a
            i += 2
        else:
            i += 1
        k = k // 2 if k > 1 else seed + i
    return out


def _mentions(decl, name):
    return name in json.dumps(decl.get('fields'))


def check_case(case, ctx):
    scratch = ctx.mkscratch()
    core = dict((k, case[k]) for k in ('ns', 'includes', 'decls', 'comments', 'dump'))
    core['packages'] = case.get('packages', [])
    core['c_includes'] = case.get('c_includes', [])
    core['shadow_includes'] = case.get('shadow_includes', [])
    if core['shadow_includes']:
        ctx.label('shadowed-dependency')
    # spread blocks over files; positions travel with the blocks so the permutation is the only change
    comments = [[c[0], case['files'][i] if i < len(case.get('files', [])) else c[1], c[2]] for i, c in enumerate(core['comments'])]
    core['comments'] = comments
    base = _ask(0, {'case': core, 'scratch': os.path.join(scratch, 'w0')})
    if base.get('error'):
        raise Discard()         # tracebacks are C05's business
    if base.get('fatal') or base.get('gir') is None:
        raise Discard()
    g0 = base['gir']

    def same(rep, what):
        if rep.get('error') or rep.get('fatal') or rep.get('gir') is None:
            raise Violation('outcome-differs:' + what, 'base run succeeded, variant gave %r' % (rep.get('error') or rep.get('fatal')))
        if rep['gir'] != g0:
            raise Violation('gir-differs:' + what, _first_diff(g0, rep['gir']))

    # (i) hash seeds
    same(_ask(1, {'case': core, 'scratch': os.path.join(scratch, 'w1')}), 'hashseed')
    same(_ask(case.get('hashseed3', 101), {'case': core, 'scratch': os.path.join(scratch, 'w2')}), 'hashseed')
    # (iii) permuted comment blocks
    if comments:
        perm = [i for i in case.get('perm', []) if i < len(comments)]
        if sorted(perm) == list(range(len(comments))):
            v = dict(core, comments=[comments[i] for i in perm])
            same(_ask(1, {'case': v, 'scratch': os.path.join(scratch, 'w1')}), 'comment-order')
            if perm != list(range(len(comments))):
                ctx.label('blocks-permuted')
    # (ii) cache: cold, warm, disabled
    xdg = os.path.join(scratch, 'cache-home')
    same(_ask(0, {'case': core, 'scratch': os.path.join(scratch, 'w0'), 'cache': True, 'xdg': xdg}), 'cache-cold')
    same(_ask(0, {'case': core, 'scratch': os.path.join(scratch, 'w0'), 'cache': True, 'xdg': xdg}), 'cache-warm')
    same(_ask(1, {'case': core, 'scratch': os.path.join(scratch, 'w1'), 'cache': True, 'xdg': xdg}), 'cache-warm-other-process')
    # (iv)/(v) declaration order of independent declarations, typedef before/after struct
    pd = _permute_decls(core['decls'], case.get('dperm_seed', 0))
    if pd != core['decls']:
        rep = _ask(0, {'case': dict(core, decls=pd), 'scratch': os.path.join(scratch, 'w0')})
        if rep.get('error') or rep.get('fatal') or rep.get('gir') is None:
            raise Violation('outcome-differs:declaration-order', repr(rep.get('error') or rep.get('fatal')))
        if _strip_pos(rep['gir']) != _strip_pos(g0):
            raise Violation('gir-differs:declaration-order', _first_diff(_strip_pos(g0), _strip_pos(rep['gir'])))
        ctx.label('decls-permuted')
    multi = len(comments) >= 2 and (len(core['packages']) >= 2 or len(core['c_includes']) >= 2 or len(core['includes']) >= 2)
    if multi:
        ctx.note_nontrivial(case)
        ctx.sample({'comments': [c[0][:200] for c in comments[:2]], 'packages': core['packages'], 'gir_tail': g0[-600:]}, 2)


def plan(tier):
    n = 12 if tier == 'quick' else 1000
    return [{'n': n}] * 16


def run_shard(ctx, spec):
    try:
        ctx.hyp(_case(), spec['n'])
    finally:
        for w in list(_workers.values()):
            try:
                w.stdin.close()
                w.terminate()
            except Exception:
                pass
        _workers.clear()


def health(agg, tier):
    probs = []
    ev = max(1, agg['evals'])
    if agg['discards'] > 0.4 * ev:
        probs.append('discard rate %d/%d' % (agg['discards'], ev))
    for lab in ('blocks-permuted', 'decls-permuted'):
        if agg['labels'].get(lab, 0) < 0.2 * ev:
            probs.append('%s in %d of %d' % (lab, agg['labels'].get(lab, 0), ev))
    return probs
