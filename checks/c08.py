"""C08 - record and union layout stored in typelibs equals the platform C ABI.

Differential test against the system C compiler.  One *batch* (the case) is a JSON model of
enumerations, callbacks, aliases and 5-40 acyclic struct/union/class declarations.  The same
model is rendered twice by two independent renderers in this file:

  (a) as a GIR document  -> compiled by the repository's g-ir-compiler (vlib/cbuild.py),
      decoded by the independent typelib decoder (vlib/typelib.py);
  (b) as C declarations  -> one program per batch, compiled with the system `gcc -O0` and
      run; it prints sizeof/_Alignof/offsetof of every compound and member and the
      width/signedness gcc picked for every enumeration.

Nothing in this file computes a layout: every expected number comes out of gcc.

Unknown-size members (statement: "a structure containing a member of unknown size is
recorded as having unknown layout rather than a wrong one") are rendered only on the GIR
side; on the C side only the members in front of the first unknown one are declared (a
`prefix` struct), because their offsets do not depend on what follows.
"""
import itertools
import os
import shutil
import subprocess
import xml.etree.ElementTree as ET

from hypothesis import strategies as st

from vlib import cbuild, typelib
from vlib.runner import Violation, HarnessError

ID = 'C08'
LEVEL = 'translation_validation'
RULE = ('Hypothesis-generated batches of 5-40 acyclic record/union/class declarations (1-8 members) over fixed-width and '
        'platform integers (incl. off_t/time_t/pid_t... aliases), gboolean, gfloat/gdouble, gunichar, GType, pointers '
        '(utf8, filename, gpointer, pointer to basic/record/union/class/enum/opaque, GList/GSList/GHashTable/GError, '
        'double pointers, pointer arrays, disguised and pointer="1" records), enumerations and bitfields whose value '
        'sets are drawn per storage class (max<128, <256, <=32767, <=65535, <=INT_MAX, >INT_MAX, negative '
        'small/medium/large, needs-64-bit), fixed-size arrays (of basic types, pointers, enums, callbacks, records, '
        'nested arrays), records/unions/classes by value to depth 4, aliases to basic types and to records, types of '
        'included namespaces by value (GTimeVal, GError, GString, GMutex, GOptionEntry, GObject, GValue, GTypeInstance, '
        'enums, aliases, callbacks), anonymous and typed callbacks, non-introspectable callback fields, empty records; '
        'plus one member of unknown size at a random position in ~12% of the compounds (by-value opaque record, local '
        'or included; flexible array member; non-introspectable field of an unresolved by-value type) and, in ~4% of '
        'the batches, a void or unresolvable by-value member; ~3% of the batches put an anonymous callback into a union. thorough adds the exhaustive (min, max) enum boundary '
        'grid and all member-order permutations of every 4-subset of ten representative member types (quick runs the '
        'grid and a 1/14 sample of the permutation batches). non-trivial = the batch contains a fully known struct with '
        'padding (some gcc offset != end of the previous member, or tail padding) and a compound nested by value; '
        'distinct = hash of the case')
ASSUMPTIONS = [
    'the system gcc (default flags, -O0) is the platform C ABI; it is also the compiler cbuild uses for g-ir-compiler, '
    'so "what the compiler picks for an enum" is the same on both sides',
    'the C prelude (typedef int gint; typedef unsigned long gsize; ...) matches GLib on x86-64 Linux; the C structs for the '
    'types of included namespaces are transcribed from /verif/fixtures/*.gir (checked field by field in setup())',
    'vlib/typelib.py decodes StructBlob/UnionBlob/FieldBlob/EnumBlob correctly (calibrated by C06)',
    'an unknown compound is accepted as such when every offset from the unknown member on is 0xFFFF (documented in '
    'gitypelib-internal.h) and its size is 0 or 0xFFFFFFFF (-1, what giroffsets.c stores); the header documents no size sentinel',
    'a batch with a void or unresolvable by-value member may also be refused by g-ir-compiler (exit 1 or fatal warning naming the '
    'field): no typelib states a wrong layout then',
    'bit-fields, unions inside records (anonymous members) and discriminated unions are outside the statement and not generated',
]
TECHNIQUE = ('translation validation per generated batch: the model is rendered as GIR (g-ir-compiler, ASan+UBSan build) and as C '
             '(system gcc); sizeof/_Alignof/offsetof and enum width/signedness printed by the C program are compared with '
             'StructBlob/UnionBlob/FieldBlob/EnumBlob')
LEVEL_TEXT = ('Every batch is validated against the real C compiler: all expected sizes, alignments, offsets and enum storage '
              'types are measured by gcc on the same declarations, none is computed by the harness.')
LEVEL_NOTE = 'holds for the generated declarations on this platform (x86-64 Linux, gcc 12); two hand-written renderers are trusted to express the same declaration'
DESIGN_REF = 'DESIGN.md section 2, C08'

NS = 'Foo'
UNKNOWN_OFFSET = 0xFFFF
UNKNOWN_SIZES = (0, 0xFFFFFFFF)
REFUSAL_KINDS = ('void', 'unresolvable')
# unknown member kind -> root-cause bucket (one key per mechanism in the code under test)
UNKNOWN_ROOT = {'opaque-inc': 'opaque'}

# GIR basic type names (girparser.c basic_types + integer_aliases) that have a size
BASIC = ['gint8', 'guint8', 'gint16', 'guint16', 'gint32', 'guint32', 'gint64', 'guint64', 'gboolean', 'gfloat',
         'gdouble', 'gunichar', 'GType', 'gchar', 'guchar', 'gshort', 'gushort', 'gint', 'guint', 'glong', 'gulong',
         'gssize', 'gsize', 'gintptr', 'guintptr', 'off_t', 'time_t', 'dev_t', 'gid_t', 'pid_t', 'socklen_t', 'uid_t']

PRELUDE = r'''
#include <stdio.h>
#include <stddef.h>
#include <sys/types.h>
#include <sys/socket.h>
/* GLib's basic types as glib/gtypes.h + glibconfig.h define them on x86-64 Linux */
typedef char gchar; typedef unsigned char guchar; typedef short gshort; typedef unsigned short gushort;
typedef int gint; typedef unsigned int guint; typedef long glong; typedef unsigned long gulong;
typedef signed char gint8; typedef unsigned char guint8; typedef signed short gint16; typedef unsigned short guint16;
typedef signed int gint32; typedef unsigned int guint32; typedef signed long gint64; typedef unsigned long guint64;
typedef signed long gssize; typedef unsigned long gsize; typedef signed long gintptr; typedef unsigned long guintptr;
typedef gint gboolean; typedef float gfloat; typedef double gdouble; typedef guint32 gunichar; typedef gsize GType;
typedef void *gpointer; typedef const void *gconstpointer;
/* types of the included namespaces, transcribed from /verif/fixtures/{GLib,GObject}-2.0.gir */
typedef guint32 GQuark; typedef guint16 GDateYear; typedef int GPid; typedef gint64 GTimeSpan;
typedef struct _GList GList; typedef struct _GSList GSList; typedef struct _GHashTable GHashTable;
typedef struct _GData GData; typedef struct _GVariant GVariant; typedef struct _GKeyFile GKeyFile;
struct _GList { gpointer data; GList *next; GList *prev; };
typedef struct { GQuark domain; gint code; gchar *message; } GError;
typedef struct { glong tv_sec; glong tv_usec; } GTimeVal;
typedef struct { gchar *str; gsize len; gsize allocated_len; } GString;
typedef union { gpointer p; guint i[2]; } GMutex;
typedef enum { G_OPTION_ARG_NONE = 0, G_OPTION_ARG_STRING = 1, G_OPTION_ARG_INT = 2 } GOptionArg;
typedef enum { G_SEEK_CUR = 0, G_SEEK_SET = 1, G_SEEK_END = 2 } GSeekType;
typedef enum { G_IO_IN = 1, G_IO_OUT = 4, G_IO_HUP = 16 } GIOCondition;
typedef struct { const gchar *long_name; gchar short_name; gint flags; GOptionArg arg; gpointer arg_data;
                 const gchar *description; const gchar *arg_description; } GOptionEntry;
typedef void (*GDestroyNotify) (gpointer data);
typedef gboolean (*GSourceFunc) (gpointer user_data);
typedef struct { GType g_type; } GTypeClass;
typedef struct { GTypeClass *g_class; } GTypeInstance;
typedef struct { GTypeInstance g_type_instance; guint ref_count; GData *qdata; } GObject;
typedef union { gint v_int; guint v_uint; glong v_long; gulong v_ulong; gint64 v_int64; guint64 v_uint64;
                gfloat v_float; gdouble v_double; gpointer v_pointer; } GValueData_;
typedef struct { GType g_type; GValueData_ data[2]; } GValue;
/* pointer-typedef'd ("disguised", pointer="1") and empty records of the generated namespace */
typedef struct _FooDisS *FooDis; typedef struct _FooPtrRecS *FooPtrRec;
typedef struct _FooOp FooOp;                 /* opaque: never completed */
typedef struct _FooEmpty { } FooEmpty;       /* GNU C: sizeof 0 */
'''

# what the transcriptions above rely on: namespace -> element name -> [(field, type summary)]
FIXTURE_EXPECT = {
    'GLib': {
        'List': [('data', 'gpointer'), ('next', 'GLib.List*'), ('prev', 'GLib.List*')],
        'Error': [('domain', 'Quark'), ('code', 'gint'), ('message', 'utf8*')],
        'TimeVal': [('tv_sec', 'glong'), ('tv_usec', 'glong')],
        'String': [('str', 'utf8*'), ('len', 'gsize'), ('allocated_len', 'gsize')],
        'Mutex': [('p', 'gpointer'), ('i', '2xguint')],
        'OptionEntry': [('long_name', 'utf8*'), ('short_name', 'gchar'), ('flags', 'gint'), ('arg', 'OptionArg'),
                        ('arg_data', 'gpointer'), ('description', 'utf8*'), ('arg_description', 'utf8*')],
        'KeyFile': [], 'Variant': [],
    },
    'GObject': {
        'TypeClass': [('g_type', 'GType')],
        'TypeInstance': [('g_class', 'TypeClass*')],
        'Object': [('g_type_instance', 'TypeInstance'), ('ref_count', 'guint'), ('qdata', 'GLib.Data*')],
        'Value': [('g_type', 'GType'), ('data', '2x_Value__data__union')],
        '_Value__data__union': [('v_int', 'gint'), ('v_uint', 'guint'), ('v_long', 'glong'), ('v_ulong', 'gulong'),
                                ('v_int64', 'gint64'), ('v_uint64', 'guint64'), ('v_float', 'gfloat'),
                                ('v_double', 'gdouble'), ('v_pointer', 'gpointer')],
    },
}
FIXTURE_ENUMS = {'GLib': {'OptionArg': [0, 1, 2], 'SeekType': [0, 1, 2], 'IOCondition': [1, 4, 16]}}
FIXTURE_ALIASES = {'GLib': {'Quark': 'guint32', 'DateYear': 'guint16', 'Pid': 'gint', 'TimeSpan': 'gint64'}}
FIXTURE_OPAQUE = {'GLib': ['KeyFile', 'Variant']}

# by-value types of the included namespaces: GIR name -> C type
# (GLib.Error and GLib.List are not here: girparser.c maps these names to the error/list type tags, which are
# pointers by definition, so the GIR has no way to say "a GError by value")
INC_VALUE = {'GLib.TimeVal': 'GTimeVal', 'GLib.String': 'GString', 'GLib.Mutex': 'GMutex',
             'GLib.OptionEntry': 'GOptionEntry', 'GObject.Object': 'GObject',
             'GObject.Value': 'GValue', 'GObject.TypeInstance': 'GTypeInstance'}
INC_ENUM = {'GLib.SeekType': 'GSeekType', 'GLib.IOCondition': 'GIOCondition', 'GLib.OptionArg': 'GOptionArg'}
INC_ALIAS = {'GLib.Quark': 'GQuark', 'GLib.DateYear': 'GDateYear', 'GLib.Pid': 'GPid', 'GLib.TimeSpan': 'GTimeSpan'}
INC_CALLBACK = {'GLib.DestroyNotify': 'GDestroyNotify', 'GLib.SourceFunc': 'GSourceFunc'}
INC_OPAQUE = {'GLib.KeyFile': 'GKeyFile', 'GLib.Variant': 'GVariant'}
INC_POINTER = {'GObject.Object': 'GObject', 'GLib.Variant': 'GVariant', 'GLib.KeyFile': 'GKeyFile', 'GLib.Error': 'GError',
               'GLib.String': 'GString', 'GObject.Value': 'GValue'}
# upper bounds of sizeof, only used by the generator to keep offsets below the 16-bit field
INC_BOUND = {'GLib.TimeVal': 16, 'GLib.String': 24, 'GLib.Mutex': 8, 'GLib.OptionEntry': 48,
             'GObject.Object': 24, 'GObject.Value': 24, 'GObject.TypeInstance': 8}

CB_RET = ['none', 'gint', 'gpointer', 'gboolean', 'gdouble']
CB_PARAM = ['gint', 'gpointer', 'utf8', 'gdouble', 'guint8', 'gint64']
UTF8_CTYPES = ['gchar*', 'const gchar*', 'char*', 'const char*']

KIND_PREFIX = {'record': 'R', 'union': 'U', 'class': 'C'}


# =========================================================================== model helpers
def comp_name(case, i):
    return '%s%d' % (KIND_PREFIX[case['comps'][i]['kind']], i)


def kind_of(T):
    """Label of a member type (for the health gates)."""
    k = T[0]
    if k == 'p':
        return 'ptr:' + T[1]
    if k == 'u':
        return 'unknown:' + T[1]
    if k == 'a':
        return 'array:' + ('array' if T[2][0] == 'a' else T[2][0])
    return k


def t_unknown(T, case, comp_unknown):
    """Root causes (set of unknown kinds) that make a member of type T unsized."""
    k = T[0]
    if k == 'u':
        return {UNKNOWN_ROOT.get(T[1], T[1])}
    if k == 'a':
        return t_unknown(T[2], case, comp_unknown)
    if k == 'r':
        return comp_unknown[T[1]]
    if k == 'al':
        return t_unknown(case['aliases'][T[1]]['t'], case, comp_unknown)
    return set()


def t_depth(T, case, comp_depth):
    k = T[0]
    if k == 'a':
        return t_depth(T[2], case, comp_depth)
    if k == 'r':
        return comp_depth[T[1]]
    if k == 'al':
        return t_depth(case['aliases'][T[1]]['t'], case, comp_depth)
    return 0


def t_bound(T, case, comp_bound):
    """Upper bound of sizeof (generator only; 8 for every scalar)."""
    k = T[0]
    if k == 'a':
        return T[1] * t_bound(T[2], case, comp_bound)
    if k == 'r':
        return comp_bound[T[1]]
    if k == 'al':
        return t_bound(case['aliases'][T[1]]['t'], case, comp_bound)
    if k == 'inc':
        return INC_BOUND[T[1]]
    return 8


def analyse(case):
    n = len(case['comps'])
    unknown, depth = [None] * n, [0] * n
    for i, c in enumerate(case['comps']):
        u, d = set(), 0
        for m in c['members']:
            T = m['t']
            _check_refs(T, i, case)
            u |= t_unknown(T, case, unknown)
            d = max(d, t_depth(T, case, depth))
        unknown[i], depth[i] = u, d + 1
    return unknown, depth


def _check_refs(T, i, case):
    """By-value references must point backwards (acyclic)."""
    k = T[0]
    if k == 'a':
        _check_refs(T[2], i, case)
    elif k == 'r':
        if not 0 <= T[1] < i:
            raise HarnessError('C08: malformed case: compound %d embeds compound %r' % (i, T[1]))
    elif k == 'al':
        _check_refs(case['aliases'][T[1]]['t'], i, case)


# =========================================================================== GIR renderer
def _gir_basic(name, ctype=None):
    return '<type name="%s" c:type="%s"/>' % (name, ctype or name)


def gir_type(T, case):
    k = T[0]
    if k == 'b':
        return _gir_basic(T[1])
    if k == 'p':
        pk = T[1]
        if pk == 'utf8':
            return _gir_basic('utf8', UTF8_CTYPES[T[2] % len(UTF8_CTYPES)])
        if pk == 'filename':
            return _gir_basic('filename', 'gchar*')
        if pk == 'gpointer':
            return _gir_basic('gpointer', 'gpointer')
        if pk == 'gconstpointer':
            return _gir_basic('gpointer', 'gconstpointer')
        if pk == 'basic':
            return _gir_basic(T[2], T[2] + '*')
        if pk == 'comp':
            return _gir_basic(comp_name(case, T[2]), NS + comp_name(case, T[2]) + '*')
        if pk == 'pp':
            return _gir_basic(comp_name(case, T[2]), NS + comp_name(case, T[2]) + '**')
        if pk == 'enum':
            return _gir_basic('E%d' % T[2], '%sE%d*' % (NS, T[2]))
        if pk == 'op':
            return _gir_basic('Op', 'FooOp*')
        if pk == 'inc':
            return _gir_basic(T[2], INC_POINTER[T[2]] + '*')
        if pk == 'list':
            return '<type name="GLib.List" c:type="GList*"><type name="gpointer" c:type="gpointer"/></type>'
        if pk == 'slist':
            return '<type name="GLib.SList" c:type="GSList*"><type name="gpointer" c:type="gpointer"/></type>'
        if pk == 'hash':
            return ('<type name="GLib.HashTable" c:type="GHashTable*"><type name="gpointer" c:type="gpointer"/>'
                    '<type name="gpointer" c:type="gpointer"/></type>')
        if pk == 'strv':
            return _gir_basic('utf8', 'gchar**')
        raise HarnessError('C08: pointer kind %r' % (pk,))
    if k == 'e':
        return _gir_basic('E%d' % T[1], '%sE%d' % (NS, T[1]))
    if k == 'a':
        return '<array zero-terminated="0" fixed-size="%d">%s</array>' % (T[1], gir_type(T[2], case))
    if k == 'r':
        return _gir_basic(comp_name(case, T[1]), NS + comp_name(case, T[1]))
    if k == 'cbt':
        return _gir_basic('Cb%d' % T[1], '%sCb%d' % (NS, T[1]))
    if k == 'cbi':
        return _gir_basic(T[1], INC_CALLBACK[T[1]])
    if k == 'al':
        return _gir_basic('Al%d' % T[1], '%sAl%d' % (NS, T[1]))
    if k == 'inc':
        return _gir_basic(T[1], INC_VALUE[T[1]])
    if k == 'ince':
        return _gir_basic(T[1], INC_ENUM[T[1]])
    if k == 'incal':
        return _gir_basic(T[1], INC_ALIAS[T[1]])
    if k == 'dis':
        return _gir_basic('Dis', 'FooDis')
    if k == 'ptrrec':
        return _gir_basic('PtrRec', 'FooPtrRec')
    if k == 'empty':
        return _gir_basic('Empty', 'FooEmpty')
    if k == 'pa':
        if T[1] == 'utf8':
            return '<array zero-terminated="1" c:type="gchar**"><type name="utf8" c:type="gchar*"/></array>'
        return '<array length="0" zero-terminated="0" c:type="%s*">%s</array>' % (T[1], _gir_basic(T[1]))
    if k == 'u':
        uk = T[1]
        if uk == 'void':
            return _gir_basic('none', 'void')
        if uk == 'unresolvable':
            return _gir_basic('NoSuchType', 'FooNoSuchType')
        if uk == 'opaque':
            return _gir_basic('Op', 'FooOp')
        if uk == 'opaque-inc':
            return _gir_basic(T[2], INC_OPAQUE[T[2]])
        if uk == 'fam':           # what g-ir-scanner writes for `gint f[];` (no size, no c:type)
            return '<array zero-terminated="0">%s</array>' % _gir_basic(T[2])
    raise HarnessError('C08: type %r has no GIR rendering here' % (T,))


def _gir_callback_body(ret, params):
    rt = {'none': _gir_basic('none', 'void'), 'utf8': _gir_basic('utf8', 'gchar*')}.get(ret, _gir_basic(ret))
    s = '<return-value transfer-ownership="none">%s</return-value>' % rt
    if params:
        s += '<parameters>'
        for i, p in enumerate(params):
            pt = _gir_basic('utf8', 'const gchar*') if p == 'utf8' else _gir_basic(p)
            s += '<parameter name="a%d" transfer-ownership="none">%s</parameter>' % (i, pt)
        s += '</parameters>'
    return s


FIELD_ATTRS = ['writable="1"', '', 'readable="0" private="1"', 'writable="1" readable="1"']


def gir_field(m, j, case):
    T = m['t']
    name = 'f%d' % j
    attrs = FIELD_ATTRS[m.get('a', 0) % len(FIELD_ATTRS)]
    if T[0] == 'cba':
        return '<field name="%s"><callback name="%s">%s</callback></field>' % (name, name, _gir_callback_body(T[1], T[2]))
    if T[0] == 'nicb':        # Regress-1.0-expected.gir: <field ... introspectable="0"><callback .../></field>
        return ('<field name="%s" introspectable="0"><callback name="%s" introspectable="0">%s</callback></field>'
                % (name, name, _gir_callback_body('none', ['gpointer'])))
    if T[0] == 'u' and T[1] == 'ni':
        # a by-value member whose type g-ir-scanner could not resolve (introspectablepass marks the field)
        return '<field name="%s" introspectable="0" %s><type c:type="%s"/></field>' % (name, attrs, T[2])
    return '<field name="%s" %s>%s</field>' % (name, attrs, gir_type(T, case))


def render_gir(case):
    o = ['<?xml version="1.0"?>',
         '<repository version="1.2" xmlns="http://www.gtk.org/introspection/core/1.0" '
         'xmlns:c="http://www.gtk.org/introspection/c/1.0" xmlns:glib="http://www.gtk.org/introspection/glib/1.0">',
         '<include name="GObject" version="2.0"/>',
         '<namespace name="%s" version="1.0" c:identifier-prefixes="%s" c:symbol-prefixes="foo">' % (NS, NS)]
    for i, a in enumerate(case['aliases']):
        o.append('<alias name="Al%d" c:type="%sAl%d">%s</alias>' % (i, NS, i, gir_type(a['t'], case)))
    o.append('<record name="Op" c:type="FooOp" opaque="1"/>')
    o.append('<record name="Dis" c:type="FooDis" disguised="1"/>')
    o.append('<record name="PtrRec" c:type="FooPtrRec" pointer="1"/>')
    o.append('<record name="Empty" c:type="FooEmpty"/>')
    for i, e in enumerate(case['enums']):
        tag = 'bitfield' if e.get('flags') else 'enumeration'
        o.append('<%s name="E%d" c:type="%sE%d">' % (tag, i, NS, i))
        for j, v in enumerate(e['values']):
            o.append('<member name="v%d" value="%d" c:identifier="FOO_E%d_V%d"/>' % (j, v, i, j))
        o.append('</%s>' % tag)
    for i, cb in enumerate(case['cbs']):
        o.append('<callback name="Cb%d" c:type="%sCb%d">%s</callback>' % (i, NS, i, _gir_callback_body(cb['ret'], cb['params'])))
    for i, c in enumerate(case['comps']):
        nm = comp_name(case, i)
        if c['kind'] == 'class':
            o.append('<class name="%s" c:symbol-prefix="%s" c:type="%s%s" parent="GObject.Object" glib:type-name="%s%s" '
                     'glib:get-type="foo_%s_get_type">' % (nm, nm.lower(), NS, nm, NS, nm, nm.lower()))
        else:
            extra = ''
            if c.get('boxed'):
                extra = ' glib:type-name="%s%s" glib:get-type="foo_%s_get_type" c:symbol-prefix="%s"' % (NS, nm, nm.lower(), nm.lower())
            o.append('<%s name="%s" c:type="%s%s"%s>' % (c['kind'], nm, NS, nm, extra))
        for j, m in enumerate(c['members']):
            o.append('  ' + gir_field(m, j, case))
        o.append('</%s>' % c['kind'])
    o.append('</namespace></repository>')
    return '\n'.join(o) + '\n'


# =========================================================================== C renderer
C_RET = {'none': 'void', 'utf8': 'gchar *'}
C_PARAM = {'utf8': 'const gchar *'}


def c_type(T, case):
    """C type specifier (with pointer stars) of a non-array, non-anonymous-callback member type."""
    k = T[0]
    if k == 'b':
        return T[1]
    if k == 'p':
        pk = T[1]
        if pk == 'utf8':
            return UTF8_CTYPES[T[2] % len(UTF8_CTYPES)].replace('*', ' *')
        if pk == 'filename':
            return 'gchar *'
        if pk in ('gpointer', 'gconstpointer'):
            return pk
        if pk == 'basic':
            return T[2] + ' *'
        if pk == 'comp':
            return NS + comp_name(case, T[2]) + ' *'
        if pk == 'pp':
            return NS + comp_name(case, T[2]) + ' **'
        if pk == 'enum':
            return '%sE%d *' % (NS, T[2])
        if pk == 'op':
            return 'FooOp *'
        if pk == 'inc':
            return INC_POINTER[T[2]] + ' *'
        if pk == 'list':
            return 'GList *'
        if pk == 'slist':
            return 'GSList *'
        if pk == 'hash':
            return 'GHashTable *'
        if pk == 'strv':
            return 'gchar **'
    if k == 'e':
        return '%sE%d' % (NS, T[1])
    if k == 'r':
        return NS + comp_name(case, T[1])
    if k == 'cbt':
        return '%sCb%d' % (NS, T[1])
    if k == 'cbi':
        return INC_CALLBACK[T[1]]
    if k == 'al':
        return '%sAl%d' % (NS, T[1])
    if k == 'inc':
        return INC_VALUE[T[1]]
    if k == 'ince':
        return INC_ENUM[T[1]]
    if k == 'incal':
        return INC_ALIAS[T[1]]
    if k == 'dis':
        return 'FooDis'
    if k == 'ptrrec':
        return 'FooPtrRec'
    if k == 'empty':
        return 'FooEmpty'
    if k == 'pa':
        return 'gchar **' if T[1] == 'utf8' else T[1] + ' *'
    raise HarnessError('C08: type %r has no C rendering' % (T,))


def _c_fnptr(ret, params, name):
    ps = ', '.join(C_PARAM.get(p, p) for p in params) or 'void'
    return '%s (*%s) (%s)' % (C_RET.get(ret, ret), name, ps)


def c_member(T, name, case):
    dims = ''
    while T[0] == 'a':
        dims += '[%d]' % T[1]
        T = T[2]
    if T[0] == 'cba':
        return _c_fnptr(T[1], T[2], name + dims)
    if T[0] == 'nicb':
        return _c_fnptr('none', ['gpointer'], name + dims)
    return '%s %s%s' % (c_type(T, case), name, dims)


def c_int(v):
    if v == -2 ** 63:
        return '(-9223372036854775807L - 1)'
    if v == -2 ** 31:
        return '(-2147483647 - 1)'
    if v > 2 ** 63 - 1:
        return '%dUL' % v
    return str(v)


def render_c(case, unknown):
    """Returns (source, queries): the program prints one line per query."""
    o = [PRELUDE]
    pr = []
    for i, e in enumerate(case['enums']):
        o.append('typedef enum { %s } %sE%d;' % (', '.join('FOO_E%d_V%d = %s' % (i, j, c_int(v)) for j, v in enumerate(e['values'])), NS, i))
        pr.append('printf("E E%d %%zu %%d\\n", sizeof (%sE%d), ((%sE%d) -1) < 0);' % (i, NS, i, NS, i))
    for i, cb in enumerate(case['cbs']):
        o.append('typedef %s;' % _c_fnptr(cb['ret'], cb['params'], '%sCb%d' % (NS, i)))
    for i, c in enumerate(case['comps']):
        kw = 'union' if c['kind'] == 'union' else 'struct'
        o.append('typedef %s _%s%s %s%s;' % (kw, NS, comp_name(case, i), NS, comp_name(case, i)))
    alias_after = {}
    for i, a in enumerate(case['aliases']):
        T = a['t']
        if T[0] == 'r':
            alias_after.setdefault(T[1], []).append(i)
        else:
            o.append('typedef %s %sAl%d;' % (c_type(T, case), NS, i))
    for i, c in enumerate(case['comps']):
        nm = comp_name(case, i)
        kw = 'union' if c['kind'] == 'union' else 'struct'
        members = c['members']
        if unknown[i]:
            # only the members in front of the first unknown one, and only for structs/classes
            first = _first_unknown(case, i, unknown)
            if kw == 'struct' and first > 0:
                o.append('struct _%s%s__prefix { %s };' % (NS, nm, ' '.join(c_member(m['t'], 'f%d' % j, case) + ';'
                                                                             for j, m in enumerate(members[:first]))))
                for j in range(first):
                    pr.append('printf("P %s f%d %%zu\\n", offsetof (struct _%s%s__prefix, f%d));' % (nm, j, NS, nm, j))
        else:
            o.append('%s _%s%s { %s };' % (kw, NS, nm, ' '.join(c_member(m['t'], 'f%d' % j, case) + ';' for j, m in enumerate(members))))
            pr.append('printf("S %s %%zu %%zu\\n", sizeof (%s%s), _Alignof (%s%s));' % (nm, NS, nm, NS, nm))
            for j in range(len(members)):
                pr.append('printf("F %s f%d %%zu %%zu\\n", offsetof (%s%s, f%d), sizeof (((%s%s *) 0)->f%d));'
                          % (nm, j, NS, nm, j, NS, nm, j))
            for ai in alias_after.get(i, []):
                o.append('typedef %s%s %sAl%d;' % (NS, nm, NS, ai))
    o.append('int main (void) {')
    o.extend('  ' + p for p in pr)
    o.append('  return 0; }')
    return '\n'.join(o) + '\n'


def _has_wide_enum(T, case, wide_enum, wide_comp):
    k = T[0]
    if k == 'a':
        return _has_wide_enum(T[2], case, wide_enum, wide_comp)
    if k == 'e':
        return T[1] in wide_enum
    if k == 'r':
        return T[1] in wide_comp
    if k == 'al':
        return _has_wide_enum(case['aliases'][T[1]]['t'], case, wide_enum, wide_comp)
    return False


def _first_unknown(case, i, unknown):
    for j, m in enumerate(case['comps'][i]['members']):
        if t_unknown(m['t'], case, unknown):
            return j
    return len(case['comps'][i]['members'])


def run_gcc(src, d):
    cfile, exe = os.path.join(d, 'layout.c'), os.path.join(d, 'layout')
    with open(cfile, 'w') as f:
        f.write(src)
    p = subprocess.run(['gcc', '-O0', '-w', '-o', exe, cfile], stdout=subprocess.PIPE, stderr=subprocess.STDOUT, text=True)
    if p.returncode != 0:
        keep = os.path.join(cbuild.VERIF, '.scratch', 'C08-gcc-failure.c')
        shutil.copy(cfile, keep)
        raise HarnessError('C08: gcc rejected the generated declarations (renderer defect; source kept in %s):\n%s' % (keep, p.stdout[-1500:]))
    p = subprocess.run([exe], stdout=subprocess.PIPE, stderr=subprocess.STDOUT, text=True, timeout=60)
    if p.returncode != 0:
        raise HarnessError('C08: layout program exited %d' % p.returncode)
    ref = {'S': {}, 'F': {}, 'E': {}, 'P': {}}
    for line in p.stdout.splitlines():
        w = line.split()
        if w[0] == 'S':
            ref['S'][w[1]] = (int(w[2]), int(w[3]))
        elif w[0] == 'F':
            ref['F'][(w[1], w[2])] = (int(w[3]), int(w[4]))
        elif w[0] == 'P':
            ref['P'][(w[1], w[2])] = int(w[3])
        elif w[0] == 'E':
            ref['E'][w[1]] = (int(w[2]), int(w[3]))
    return ref


# =========================================================================== the oracle
_B = None


def _build():
    global _B
    if _B is None:
        _B = cbuild.build()
    return _B


def setup(tier):
    if not shutil.which('gcc'):
        raise HarnessError('C08: no gcc on PATH')
    _build()
    _check_fixtures()


def _summ(field):
    core = '{http://www.gtk.org/introspection/core/1.0}'
    cns = '{http://www.gtk.org/introspection/c/1.0}'
    t = field.find(core + 'type')
    if t is not None:
        return t.get('name') + ('*' if (t.get(cns + 'type') or '').endswith('*') and t.get('name') != 'gpointer' else '')
    a = field.find(core + 'array')
    if a is not None and a.get('fixed-size'):
        return '%sx%s' % (a.get('fixed-size'), a.find(core + 'type').get('name'))
    return '?'


def _check_fixtures():
    """The C transcriptions in PRELUDE are only as good as their agreement with the fixture GIRs."""
    core = '{http://www.gtk.org/introspection/core/1.0}'
    for ns in ('GLib', 'GObject'):
        root = ET.parse(os.path.join(cbuild.FIXTURES, ns + '-2.0.gir')).getroot().find(core + 'namespace')
        by_name = {}
        for el in root:
            by_name.setdefault(el.get('name'), el)
        for name, want in FIXTURE_EXPECT.get(ns, {}).items():
            el = by_name.get(name)
            got = None if el is None else [(f.get('name'), _summ(f)) for f in el.findall(core + 'field')]
            if got != want:
                raise HarnessError('C08: fixture %s.%s changed: fields %r, PRELUDE transcribes %r' % (ns, name, got, want))
        for name, want in FIXTURE_ENUMS.get(ns, {}).items():
            el = by_name.get(name)
            got = None if el is None else [int(m.get('value')) for m in el.findall(core + 'member')]
            if got != want:
                raise HarnessError('C08: fixture enum %s.%s changed: %r vs %r' % (ns, name, got, want))
        for name, want in FIXTURE_ALIASES.get(ns, {}).items():
            el = by_name.get(name)
            got = None if el is None or el.tag != core + 'alias' else el.find(core + 'type').get('name')
            if got != want:
                raise HarnessError('C08: fixture alias %s.%s changed: %r vs %r' % (ns, name, got, want))
        for name in FIXTURE_OPAQUE.get(ns, []):
            el = by_name.get(name)
            if el is None or el.get('opaque') != '1':
                raise HarnessError('C08: fixture %s.%s is no longer an opaque record' % (ns, name))


def _v(where, clause, detail):
    """A violation that names the declaration it is about (used by the reducer)."""
    v = Violation(clause, detail)
    v.where = where
    return v


def _storage_name(size, signed):
    return '%sint%d' % ('' if signed else 'u', size * 8)


def _describe_member(T, name, case):
    dims, B = '', T
    while B[0] == 'a':
        dims += '[%d]' % B[1]
        B = B[2]
    if B[0] == 'u':
        text = {'void': 'void %s;', 'unresolvable': 'FooNoSuchType %s; /* no such type */',
                'opaque': 'FooOp %s; /* opaque record by value */',
                'opaque-inc': '%s %%s; /* opaque record of an included namespace by value */' % (INC_OPAQUE.get(B[2]) if len(B) > 2 else '?'),
                'fam': '%s %%s[]; /* flexible array member */' % (B[2] if len(B) > 2 else '?'),
                'ni': '%s %%s; /* type unknown to the scanner: introspectable="0" */' % (B[2] if len(B) > 2 else '?')}[B[1]]
        return text % (name + dims)
    return c_member(T, name, case) + ';'


def _describe(case, i):
    c = case['comps'][i]
    kw = 'union' if c['kind'] == 'union' else 'struct'
    return '%s %s%s { %s }' % (kw, NS, comp_name(case, i),
                               ' '.join(_describe_member(m['t'], 'f%d' % j, case) for j, m in enumerate(c['members'])))


def _check(case, ctx):
    b = _build()
    d = ctx.mkscratch()
    unknown, depth = analyse(case)
    all_kinds = set()
    for u in unknown:
        all_kinds |= u

    gir_path = os.path.join(d, '%s-1.0.gir' % NS)
    out_path = os.path.join(d, '%s-1.0.typelib' % NS)
    with open(gir_path, 'w') as f:
        f.write(render_gir(case))
    if os.path.exists(out_path):
        os.unlink(out_path)
    ref = run_gcc(render_c(case, unknown), d)
    rc, out, err = b.compile_gir(gir_path, out_path, includedirs=[cbuild.FIXTURES])

    tag = case.get('tag', 'random')
    ctx.label('batch:' + tag)
    refusable = [k for k in REFUSAL_KINDS if k in all_kinds]
    if rc != 0:
        tail = err.strip()[-700:]
        if refusable and rc in (1, -5) and ('void type' in err or "Can't resolve type" in err or 'NoSuchType' in err):
            ctx.label('refused:' + refusable[0])
            return
        ucb = [i for i, c in enumerate(case['comps']) if c['kind'] == 'union' and any(m['t'][0] == 'cba' for m in c['members'])]
        if ucb and rc == -5 and 'Caught NULL node' in err:
            clause = 'compiler-fatal:anonymous-callback-in-union'
            if ctx.known(clause):
                return
            raise _v(('comp', ucb[0]), clause, '%s: g-ir-compiler exit %d: %s' % (_describe(case, ucb[0]), rc, tail[-400:]))
        if rc < 0 and rc != -5:
            raise Violation('compiler-crash:signal-%d' % -rc, tail)
        raise Violation('compiler-rejects-valid-gir' if rc == 1 else 'compiler-fatal-warning', 'exit %d: %s' % (rc, tail))
    try:
        with open(out_path, 'rb') as f:
            t = typelib.Typelib(f.read())
    except typelib.FormatError as e:
        raise Violation('typelib-undecodable', str(e))

    # ---- enumerations
    for i, e in enumerate(case['enums']):
        ent = t.entry('E%d' % i)
        if ent is None or 'storage_type_name' not in ent.get('blob', {}):
            raise _v(('enum', i), 'entry-missing', 'enum E%d' % i)
        size, signed = ref['E']['E%d' % i]
        want = _storage_name(size, signed)
        got = ent['blob']['storage_type_name']
        if got != want:
            clause = 'enum-storage:needs-64-bit' if size == 8 else 'enum-storage'
            if ctx.known(clause):
                continue
            raise _v(('enum', i), clause, 'enum { %s }: gcc uses %s (sizeof %d, %s), typelib storage_type is %s'
                            % (', '.join(str(v) for v in e['values']), want, size, 'signed' if signed else 'unsigned', got))

    # ---- compounds
    wide_enum = set(i for i in range(len(case['enums'])) if ref['E']['E%d' % i][0] == 8)
    wide_comp = set()
    for i, c in enumerate(case['comps']):
        if any(_has_wide_enum(m['t'], case, wide_enum, wide_comp) for m in c['members']):
            wide_comp.add(i)
    has_padding = has_nested = False
    seen = set()
    n_known = n_unknown = n_fields = 0
    for i, c in enumerate(case['comps']):
        nm = comp_name(case, i)
        ent = t.entry(nm)
        if ent is None or 'fields' not in ent.get('blob', {}):
            raise _v(('comp', i), 'entry-missing', '%s %s' % (c['kind'], nm))
        blob = ent['blob']
        fields = blob['fields']
        if [f['name'] for f in fields] != ['f%d' % j for j in range(len(c['members']))]:
            raise _v(('comp', i), 'fields-missing-or-reordered', '%s: typelib has %r' % (_describe(case, i), [f['name'] for f in fields]))
        offs = [f['struct_offset'] for f in fields]
        n_fields += len(offs)
        sized = c['kind'] != 'class'            # ObjectBlob has no size/alignment
        if not unknown[i]:
            n_known += 1
            rsize, ralign = ref['S'][nm]
            roffs = [ref['F'][(nm, 'f%d' % j)] for j in range(len(offs))]
            problem = None
            for j, (ro, rs) in enumerate(roffs):
                if offs[j] != ro:
                    problem = ('%s-field-offset' % c['kind'],
                               '%s: gcc puts f%d at %d, typelib says %s (gcc offsets %r, typelib %r)'
                               % (_describe(case, i), j, ro, offs[j], [x[0] for x in roffs], offs))
                    break
            if problem is None and sized and blob['size'] != rsize:
                problem = ('%s-size' % c['kind'], '%s: gcc sizeof %d, typelib size %d' % (_describe(case, i), rsize, blob['size']))
            if problem is None and sized and blob['alignment'] != ralign:
                problem = ('%s-alignment' % c['kind'], '%s: gcc _Alignof %d, typelib alignment %d'
                           % (_describe(case, i), ralign, blob['alignment']))
            if problem is not None:
                # a record that embeds an enumeration gcc makes 8 bytes wide inherits that (known) disagreement
                if i in wide_comp:
                    if ctx.known('enum-storage:needs-64-bit'):
                        continue
                    problem = ('enum-storage:needs-64-bit', problem[1] + ' [embeds an enumeration that is 8 bytes wide for gcc]')
                raise _v(('comp', i), problem[0], problem[1])
            if c['kind'] != 'union':
                end = 0
                for ro, rs in roffs:
                    if ro != end:
                        has_padding = True
                    end = ro + rs
                if rsize != end:
                    has_padding = True
            for m in c['members']:
                seen.add(kind_of(m['t']))
                if t_depth(m['t'], case, depth) > 0:
                    has_nested = True
                T = m['t']
                while T[0] == 'a':
                    T = T[2]
                if T[0] == 'e':
                    seen.add('enumcls:' + case['enums'][T[1]].get('cls', '?'))
            seen.add('compound:' + c['kind'])
        else:
            n_unknown += 1
            first = _first_unknown(case, i, unknown)
            for k in sorted(unknown[i]):
                seen.add('unknown-root:' + k)
            for m in c['members']:
                if kind_of(m['t']).startswith(('unknown:', 'array:u')):
                    seen.add(kind_of(m['t']))
            seen.add('unknown-direct' if t_unknown(c['members'][first]['t'], case, [set()] * len(unknown)) else 'unknown-embedded')
            stated = []
            if c['kind'] == 'union':
                for j, off in enumerate(offs):
                    if off not in (0, UNKNOWN_OFFSET):
                        raise _v(('comp', i), 'union-field-offset', '%s: member f%d at %d' % (_describe(case, i), j, off))
            else:
                for j in range(first):
                    ro = ref['P'][(nm, 'f%d' % j)]
                    if offs[j] not in (ro, UNKNOWN_OFFSET):
                        if i in wide_comp and ctx.known('enum-storage:needs-64-bit'):
                            break
                        raise _v(('comp', i), 'enum-storage:needs-64-bit' if i in wide_comp else '%s-field-offset:before-unknown-member' % c['kind'],
                                 '%s: gcc puts f%d at %d whatever follows, typelib says %d' % (_describe(case, i), j, ro, offs[j]))
                for j in range(first, len(offs)):
                    if offs[j] != UNKNOWN_OFFSET:
                        stated.append('f%d at %d' % (j, offs[j]))
            if sized and blob['size'] not in UNKNOWN_SIZES:
                stated.append('size %d alignment %d' % (blob['size'], blob['alignment']))
            if stated:
                roots = sorted(unknown[i])
                open_roots = [k for k in roots if not ctx.known('unknown-stated-as-known:' + k)]
                if open_roots:
                    raise _v(('comp', i), 'unknown-stated-as-known:' + open_roots[0],
                                    '%s: member f%d has no known size (%s), yet the typelib states %s'
                                    % (_describe(case, i), first, ', '.join(roots), '; '.join(stated)))
    for s in seen:
        ctx.label(s)
    if max(depth) >= 3:
        ctx.label('depth>=3')
    if has_padding:
        ctx.label('padding')
    if has_nested:
        ctx.label('nested')
    ex = ctx.extra
    ex['compounds_fully_known'] = ex.get('compounds_fully_known', 0) + n_known
    ex['compounds_with_unknown_member'] = ex.get('compounds_with_unknown_member', 0) + n_unknown
    ex['fields_compared'] = ex.get('fields_compared', 0) + n_fields
    ex['enums_compared'] = ex.get('enums_compared', 0) + len(case['enums'])
    if has_padding and has_nested:
        ctx.note_nontrivial(case)
        if tag == 'random':
            k = next((i for i in range(len(case['comps'])) if not unknown[i] and depth[i] >= 2), None)
            if k is not None:
                nm = comp_name(case, k)
                ctx.sample({'declaration': _describe(case, k), 'gcc': {'sizeof': ref['S'][nm][0], 'alignof': ref['S'][nm][1],
                            'offsets': [ref['F'][(nm, 'f%d' % j)][0] for j in range(len(case['comps'][k]['members']))]}}, 2)


# =========================================================================== reducer
# Hypothesis' shrinker needs hundreds of re-evaluations (two processes each); the failing batch is
# instead cut down here to the declaration the violation is about and what it embeds.
class _Quiet(object):
    """ctx stand-in for the re-evaluations made while reducing: nothing is counted."""

    def __init__(self, ctx):
        self._ctx = ctx
        self.extra = {}

    def label(self, *a):
        pass

    def sample(self, *a, **k):
        pass

    def note_nontrivial(self, *a):
        pass

    def mkscratch(self):
        return self._ctx.mkscratch()

    def known(self, key):
        from vlib.runner import open_known_keys
        return not getattr(self._ctx, 'no_exclusion', False) and key in open_known_keys(ID)


def _by_value_deps(T, case, acc):
    k = T[0]
    if k == 'a':
        _by_value_deps(T[2], case, acc)
    elif k == 'r':
        acc.add(T[1])
    elif k == 'al':
        _by_value_deps(case['aliases'][T[1]]['t'], case, acc)


def _closure(case, i):
    keep, todo = set(), [i]
    while todo:
        k = todo.pop()
        if k in keep:
            continue
        keep.add(k)
        deps = set()
        for m in case['comps'][k]['members']:
            _by_value_deps(m['t'], case, deps)
        todo.extend(deps)
    return sorted(keep)


def _subcase(case, keep, keep_enums=()):
    """The batch restricted to the compounds `keep` (indices); references are renumbered, pointers
    to dropped compounds become gpointer, unused enums and aliases are dropped."""
    cmap = dict((old, new) for new, old in enumerate(keep))
    emap, amap = {}, {}
    out = {'tag': case.get('tag', 'random'), 'enums': [], 'cbs': case['cbs'], 'aliases': [], 'comps': []}

    def enum(i):
        if i not in emap:
            emap[i] = len(out['enums'])
            out['enums'].append(case['enums'][i])
        return emap[i]

    def conv(T):
        k = T[0]
        if k == 'a':
            return ['a', T[1], conv(T[2])]
        if k == 'r':
            return ['r', cmap[T[1]]] if T[1] in cmap else ['b', 'gint']
        if k == 'e':
            return ['e', enum(T[1])]
        if k == 'p' and T[1] in ('comp', 'pp'):
            return ['p', T[1], cmap[T[2]]] if T[2] in cmap else ['p', 'gpointer']
        if k == 'p' and T[1] == 'enum':
            return ['p', 'enum', enum(T[2])]
        if k == 'al':
            if T[1] not in amap:
                amap[T[1]] = len(out['aliases'])
                out['aliases'].append(None)
                out['aliases'][amap[T[1]]] = {'t': conv(case['aliases'][T[1]]['t'])}
            return ['al', amap[T[1]]]
        return T
    for i in keep_enums:
        enum(i)
    for old in keep:
        c = case['comps'][old]
        nc = dict(c)
        nc['members'] = [dict(m, t=conv(m['t'])) for m in c['members']]
        out['comps'].append(nc)
    return out


def _reduce(case, v, ctx):
    q = _Quiet(ctx)

    def fails(cand):
        try:
            _check(cand, q)
        except Violation as w:
            return w if w.clause == v.clause else None
        except Exception:
            return None
        return None
    where = getattr(v, 'where', None)
    best = bestv = None
    if where and where[0] == 'enum':
        cand = _subcase(case, [], keep_enums=[where[1]])
        w = fails(cand)
        if w:
            return cand, w
    if where and where[0] == 'comp':
        cand = _subcase(case, _closure(case, where[1]))
        w = fails(cand)
        if w:
            best, bestv = cand, w
    if best is None:
        best, bestv = case, v
        for i in range(len(case['comps']) - 1, -1, -1):
            keep = [k for k in range(len(best['comps'])) if k != i]
            if i >= len(best['comps']) or any(i in _closure(best, k) for k in keep):
                continue
            cand = _subcase(best, keep)
            w = fails(cand)
            if w:
                best, bestv = cand, w
        return (best, bestv) if best is not case else None
    # members of the declaration the violation is about (it is the last one of the closure)
    t = len(best['comps']) - 1
    j = len(best['comps'][t]['members']) - 1
    while j >= 0 and len(best['comps'][t]['members']) > 1:
        cand = _subcase(best, list(range(t + 1)))
        del cand['comps'][t]['members'][j]
        cand = _subcase(cand, _closure(cand, t))
        w = fails(cand)
        if w:
            best, bestv = cand, w
            t = len(best['comps']) - 1
        j -= 1
    return best, bestv


def check_case(case, ctx):
    try:
        _check(case, ctx)
    except Violation as v:
        red = None if isinstance(ctx, _Quiet) else _reduce(case, v, ctx)
        if red is None:
            raise
        # the runner records the object it handed in: make that the reduced batch
        reduced, w = red
        reduced = dict(reduced)
        case.clear()
        case.update(reduced)
        raise w


# =========================================================================== generator
ENUM_CLASSES = ['u7', 'u8', 's15', 'u16', 's31', 'u32', 'n8', 'n16', 'n32']
INT_MAX, UINT_MAX = 2 ** 31 - 1, 2 ** 32 - 1


def _gen_enum(draw, force_cls=None):
    I = lambda a, b: draw(st.integers(a, b))      # noqa: E731

    def edge(lo, hi):
        # boundaries of the range are as likely as everything in between
        return draw(st.one_of(st.sampled_from([lo, hi, min(lo + 1, hi), max(hi - 1, lo)]), st.integers(lo, hi)))
    cls = force_cls or draw(st.sampled_from(ENUM_CLASSES + ENUM_CLASSES + ['need64']))
    lo = 0
    if cls == 'u7':
        hi = edge(0, 127)
    elif cls == 'u8':
        hi = edge(128, 255)
    elif cls == 's15':
        hi = edge(256, 32767)
    elif cls == 'u16':
        hi = edge(32768, 65535)
    elif cls == 's31':
        hi = edge(65536, INT_MAX)
    elif cls == 'u32':
        hi = edge(INT_MAX + 1, UINT_MAX)
    elif cls == 'n8':
        lo, hi = edge(-128, -1), edge(0, 127)
    elif cls == 'n16':
        if I(0, 1):
            lo, hi = edge(-32768, -129), edge(0, 32767)
        else:
            lo, hi = edge(-128, -1), edge(128, 32767)
    elif cls == 'n32':
        if I(0, 1):
            lo, hi = edge(-INT_MAX - 1, -32769), edge(0, INT_MAX)
        else:
            lo, hi = edge(-32768, -1), edge(32768, INT_MAX)
    else:
        lo, hi = edge(-INT_MAX - 1, -1), edge(INT_MAX + 1, UINT_MAX)
    vals = [hi] if lo == 0 else [lo, hi]
    for _ in range(I(0, 3)):
        vals.append(I(lo, hi))
    if I(0, 2) == 0:
        vals.append(0)
    uniq = []
    for v in vals:
        if v not in uniq:
            uniq.append(v)
    if I(0, 1):
        uniq.reverse()
    return {'cls': cls, 'flags': cls[0] != 'n' and cls != 'need64' and I(0, 3) == 0, 'values': uniq}


MAX_BOUND = 4000          # generator-side bound on sizeof, far below the 16-bit struct_offset
ARRAY_LEN = [1, 2, 3, 4, 5, 7, 8, 16]
UNKNOWN_DRAW = ['opaque', 'opaque', 'opaque-inc', 'fam', 'fam', 'ni']
NI_CTYPES = ['pthread_mutex_t', 'struct timespec', 'FILE', 'jmp_buf']


@st.composite
def _batch(draw):
    I = lambda a, b: draw(st.integers(a, b))      # noqa: E731
    pick = lambda seq: draw(st.sampled_from(seq))  # noqa: E731

    def chance(pct):
        # Hypothesis draws the end points of an integer range far more often than 1/N, so rare events
        # are tied to a window in the middle of the range
        return 400 <= I(0, 999) < 400 + 10 * pct
    case = {'tag': 'random', 'enums': [], 'cbs': [], 'aliases': [], 'comps': []}
    for _ in range(I(2, 7)):
        case['enums'].append(_gen_enum(draw))
    for _ in range(I(1, 3)):
        case['cbs'].append({'ret': pick(CB_RET), 'params': [pick(CB_PARAM) for _ in range(I(0, 3))]})
    for _ in range(I(0, 2)):
        case['aliases'].append({'t': ['b', pick(BASIC)]})
    n = I(5, 40)
    unknown, depth, bound = [], [], []

    def by_value_candidate(i, budget, want_known):
        """A compound in front of i that may be embedded, found deterministically from one drawn index."""
        if i == 0:
            return None
        start = I(0, i - 1)
        for step in range(i):
            j = (start - step) % i
            if depth[j] <= 3 and bound[j] <= budget and (not want_known or not unknown[j]):
                return j
        return None

    def gen_type(i, budget, in_union, level, top):
        r = I(0, 99)
        if r < 30 or budget < 8:
            return ['b', pick(BASIC)]
        if r < 44:
            pk = pick(['utf8', 'gpointer', 'comp', 'comp', 'basic', 'filename', 'gconstpointer', 'pp', 'enum', 'op',
                       'inc', 'list', 'slist', 'hash', 'strv'])
            if pk == 'utf8':
                return ['p', pk, I(0, 3)]
            if pk == 'basic':
                return ['p', pk, pick(BASIC)]
            if pk in ('comp', 'pp'):
                return ['p', pk, I(0, n - 1)]          # any compound, also later ones and itself
            if pk == 'enum':
                return ['p', pk, I(0, len(case['enums']) - 1)]
            if pk == 'inc':
                return ['p', pk, pick(sorted(INC_POINTER))]
            return ['p', pk]
        if r < 54:
            return ['e', I(0, len(case['enums']) - 1)]
        if r < 68 and level < 3:
            nlen = pick(ARRAY_LEN)
            if budget // nlen >= 8:
                return ['a', nlen, gen_type(i, budget // nlen, in_union, level + 1, False)]
            return ['b', pick(BASIC)]
        if r < 84:
            j = by_value_candidate(i, budget, not chance(15))
            if j is None:
                return ['b', pick(BASIC)]
            if I(0, 7) == 0:          # through an alias (typedef FooRj FooAlk)
                for k, a in enumerate(case['aliases']):
                    if a['t'] == ['r', j]:
                        return ['al', k]
                case['aliases'].append({'t': ['r', j]})
                return ['al', len(case['aliases']) - 1]
            return ['r', j]
        if r < 90:
            ck = I(0, 3)
            if ck == 0 and top and not in_union:
                return ['cba', pick(CB_RET), [pick(CB_PARAM) for _ in range(I(0, 3))]]
            if ck == 1:
                return ['cbi', pick(sorted(INC_CALLBACK))]
            return ['cbt', I(0, len(case['cbs']) - 1)]
        if r < 93:
            basic_aliases = [k for k, a in enumerate(case['aliases']) if a['t'][0] == 'b']
            if basic_aliases:
                return ['al', pick(basic_aliases)]
            return ['incal', pick(sorted(INC_ALIAS))]
        if r < 97:
            ik = I(0, 5)
            if ik == 0:
                return ['ince', pick(sorted(INC_ENUM))]
            if ik == 1:
                return ['incal', pick(sorted(INC_ALIAS))]
            name = pick(sorted(INC_VALUE))
            return ['inc', name] if INC_BOUND[name] <= budget else ['b', pick(BASIC)]
        mk = pick(['dis', 'ptrrec', 'pa', 'pa', 'nicb', 'empty'])
        if mk == 'pa':
            return ['pa', pick(['utf8', 'gint', 'guint8', 'gdouble'])]
        if mk == 'nicb' and (not top or in_union):
            return ['dis']
        return [mk]

    refuse_batch = chance(4)
    refuse_at = I(0, n - 1)
    union_cb_batch = chance(3)
    for i in range(n):
        kind = pick(['record', 'record', 'record', 'record', 'record', 'union', 'union', 'class'])
        nm = draw(st.one_of(st.integers(1, 4), st.integers(1, 8)))
        c = {'kind': kind, 'members': []}
        if kind == 'record' and I(0, 5) == 0:
            c['boxed'] = True
        used = 0
        for j in range(nm):
            if kind == 'class' and j == 0 and I(0, 1):
                T = ['inc', 'GObject.Object']
            else:
                T = gen_type(i, MAX_BOUND - used, kind == 'union', 0, True)
            c['members'].append({'t': T, 'a': I(0, 3)})
            used += t_bound(T, case, bound)
        if union_cb_batch and kind == 'union':
            union_cb_batch = False
            c['members'][I(0, nm - 1)]['t'] = ['cba', pick(CB_RET), [pick(CB_PARAM) for _ in range(I(0, 2))]]
        if refuse_batch and i == refuse_at:
            c['members'][I(0, nm - 1)]['t'] = ['u', pick(list(REFUSAL_KINDS))]
        elif chance(12):
            uk = pick(UNKNOWN_DRAW)
            if uk == 'opaque':
                T = ['u', 'opaque']
                if I(0, 3) == 0:
                    T = ['a', pick([1, 2, 3]), T]
            elif uk == 'opaque-inc':
                T = ['u', 'opaque-inc', pick(sorted(INC_OPAQUE))]
            elif uk == 'fam':
                T = ['u', 'fam', pick(['gint', 'guint8', 'gdouble', 'gint16'])]
            else:
                T = ['u', 'ni', pick(NI_CTYPES)]
            c['members'][I(0, nm - 1)]['t'] = T
        case['comps'].append(c)
        u, dmax, bsum = set(), 0, 0
        for m in c['members']:
            u |= t_unknown(m['t'], case, unknown)
            dmax = max(dmax, t_depth(m['t'], case, depth))
            bsum += t_bound(m['t'], case, bound)
        unknown.append(u)
        depth.append(dmax + 1)
        bound.append(max(bsum, 1))
    return case


# =========================================================================== exhaustive parts
GRID_MAX = [0, 1, 126, 127, 128, 129, 254, 255, 256, 257, 32766, 32767, 32768, 32769, 65534, 65535, 65536, 65537,
            INT_MAX - 1, INT_MAX, INT_MAX + 1, INT_MAX + 2, UINT_MAX - 1, UINT_MAX]
GRID_MIN = [None, -1, -2, -127, -128, -129, -130, -32767, -32768, -32769, -32770, -INT_MAX, -INT_MAX - 1]
GRID_PER_BATCH = 26


def _grid_cases():
    pairs = [(lo, hi) for lo in GRID_MIN for hi in GRID_MAX]
    cases = []
    for k in range(0, len(pairs), GRID_PER_BATCH):
        case = {'tag': 'enum-grid', 'enums': [], 'cbs': [], 'aliases': [], 'comps': []}
        for n, (lo, hi) in enumerate(pairs[k:k + GRID_PER_BATCH]):
            vals = [hi] if lo is None else [lo, hi]
            if 0 not in vals and n % 2:
                vals.insert(1, 0)
            case['enums'].append({'cls': 'grid', 'flags': False, 'values': vals})
            case['comps'].append({'kind': 'record', 'members': [{'t': ['b', 'gint8'], 'a': 0}, {'t': ['e', n], 'a': 0},
                                                                {'t': ['b', 'gint8'], 'a': 0}, {'t': ['a', 3, ['e', n]], 'a': 0}]})
        case['comps'].append({'kind': 'union', 'members': [{'t': ['e', n], 'a': 0} for n in range(len(case['enums']))][:12]})
        cases.append(case)
    return cases


PERM_POOL = [['b', 'gint8'], ['b', 'gint16'], ['b', 'gint32'], ['b', 'gint64'], ['b', 'gdouble'], ['b', 'gboolean'],
             ['p', 'gpointer'], ['a', 3, ['b', 'guint8']], ['r', 0], ['r', 1]]
PERM_BASE = [{'kind': 'record', 'members': [{'t': ['b', 'gint8'], 'a': 0}, {'t': ['b', 'gint64'], 'a': 0}, {'t': ['b', 'gint16'], 'a': 0}]},
             {'kind': 'union', 'members': [{'t': ['a', 5, ['b', 'gint8']], 'a': 0}, {'t': ['b', 'gint32'], 'a': 0}]}]


def _perm_cases():
    cases = []
    for subset in itertools.combinations(range(len(PERM_POOL)), 4):
        case = {'tag': 'permutations', 'enums': [{'cls': 'u7', 'flags': False, 'values': [0, 1]}], 'cbs': [], 'aliases': [],
                'comps': [dict(c) for c in PERM_BASE]}
        for perm in itertools.permutations(subset):
            case['comps'].append({'kind': 'record', 'members': [{'t': PERM_POOL[k], 'a': 0} for k in perm]})
        case['comps'].append({'kind': 'union', 'members': [{'t': PERM_POOL[k], 'a': 0} for k in subset]})
        cases.append(case)
    return cases


def plan(tier):
    if tier == 'quick':
        return [{'n': 11, 'perm_every': 14} for _ in range(16)]
    return [{'n': 1500, 'perm_every': 1} for _ in range(16)]


def run_shard(ctx, spec):
    _build()
    grid = _grid_cases()
    perms = _perm_cases()[::spec['perm_every']]
    mine = grid[ctx.shard::16] + perms[ctx.shard::16]
    for c in mine:
        ctx.run_case(c, reraise=False)
    if ctx.shard == 0:
        ctx.extra['exhaustive_enum_grid'] = '%d (min, max) pairs: min in %r, max in %r' % (len(GRID_MIN) * len(GRID_MAX), GRID_MIN, GRID_MAX)
        ctx.extra['permutation_batches'] = '%d of %d (all orders of every 4-subset of %d member types)' % (len(perms), len(_perm_cases()), len(PERM_POOL))
    ctx.hyp(_batch(), spec['n'], shrink=False)


def health(agg, tier):
    lab = agg['labels']
    nb = max(1, lab.get('batch:random', 0))
    probs = []

    def need(name, frac):
        if lab.get(name, 0) < frac * nb:
            probs.append('%s in %d of %d random batches' % (name, lab.get(name, 0), nb))
    for k in ('b', 'e', 'r', 'cbt', 'cbi', 'cba', 'al', 'inc', 'incal', 'array:b', 'array:r', 'array:array', 'array:p', 'array:e'):
        need(k, 0.25)
    for k in ('ince', 'ptr:utf8', 'ptr:gpointer', 'ptr:comp', 'ptr:basic', 'ptr:op', 'ptr:list', 'ptr:inc', 'ptr:enum', 'ptr:pp',
              'dis', 'ptrrec', 'pa', 'empty'):
        need(k, 0.1)
    need('nicb', 0.05)
    for c in ENUM_CLASSES:
        need('enumcls:' + c, 0.08)
    need('enumcls:need64', 0.02)
    need('compound:union', 0.8)
    need('compound:class', 0.5)
    need('depth>=3', 0.4)
    need('padding', 0.8)
    need('nested', 0.7)
    need('unknown-direct', 0.4)
    need('unknown-embedded', 0.04)
    for k in ('opaque', 'opaque-inc', 'fam', 'ni'):
        need('unknown:' + k, 0.1)
    if tier == 'thorough':
        for k in REFUSAL_KINDS:
            need('refused:' + k, 0.005)
    if lab.get('batch:enum-grid', 0) < len(_grid_cases()):
        probs.append('enum grid incomplete: %d batches' % lab.get('batch:enum-grid', 0))
    return probs
