"""C04 - each public C symbol is described once, under the right name and owner.

Generated sets of declarations under generated prefix configurations run through
the real pipeline (substrate P); the oracle looks at the emitted XML only.
"""
import xml.etree.ElementTree as ET

from hypothesis import strategies as st

from vlib import pipeline, cmodel
from vlib.cmodel import ty, param, CONST
from vlib.runner import Violation, crash_clause

ID = 'C04'
LEVEL = 'exploration'
RULE = ('Hypothesis-generated namespaces: 1-3 identifier prefixes and symbol prefixes (incl. one being a prefix of another, '
        'prefixes of the included GLib namespace, accept-unprefixed on/off); 2-6 types (plain/opaque records, unions, boxed and '
        'class types registered through a dump, enums, callbacks, aliases) whose underscored names are prefixes of each other '
        '(Text, TextBuffer, TextBufferIter) in every typedef/struct order; 2-10 functions built to hit and narrowly miss method, '
        'constructor and static-function pairing, plus underscore-prefixed, foreign-prefixed and unprefixed symbols and '
        'constants. non-trivial = at least two prefixes or a prefix-of-prefix pair of type names, with at least one function '
        'that pairs and one that narrowly does not; distinct = hash of the case')
ASSUMPTIONS = [
    'substrate P: cmodel.to_symbols mirrors scannerparser.y (DESIGN appendix D)',
    'when several namespace prefixes match one C name the statement does not say which is stripped: any is accepted',
    '"must be a method" is asserted only for <nsprefix>_<type_prefix>_<verb>(Type *self, ...) where no longer type name also matches',
]
TECHNIQUE = 'property-based testing (Hypothesis) on the scanner pipeline behind a stub front end; counting + necessary-condition oracle on the GIR XML'
LEVEL_TEXT = ('Randomised search over declaration sets and prefix configurations; the oracle counts C identifiers in the output and '
              'checks necessary conditions of method/constructor placement, so it cannot raise a false alarm on ambiguous pairings.')
LEVEL_NOTE = 'trusts the symbol-tree model of the C front end (DESIGN 1.2) and the fixture GIRs'
DESIGN_REF = 'DESIGN.md section 2, C04'

GI = '{http://www.gtk.org/introspection/core/1.0}'
C = '{http://www.gtk.org/introspection/c/1.0}'
GLIB = '{http://www.gtk.org/introspection/glib/1.0}'

TYPE_NAMES = ['Text', 'TextBuffer', 'TextBufferIter', 'Thing', 'ThingFactory', 'Obj', 'Item', 'ItemList', 'Node']
VERBS = ['get_x', 'set_x', 'frob', 'new', 'new_with_x', 'newv', 'renew', 'free', 'copy', 'iter_next', 'buffer_get', 'list_add',
         'factory_make', 'init', 'do_it']
CONFIGS = [
    {'id': ['Foo'], 'sym': ['foo']},
    {'id': ['Foo'], 'sym': ['foo']},
    {'id': ['Foo', 'Bar'], 'sym': ['foo', 'bar']},
    {'id': ['Foo', 'FooX'], 'sym': ['foo', 'foo_x']},
    {'id': ['FooX', 'Foo'], 'sym': ['foo_x', 'foo']},
    {'id': ['Foo'], 'sym': ['fo', 'foo']},
    {'id': ['G', 'Foo'], 'sym': ['g', 'foo']},
    {'id': ['Foo'], 'sym': ['my_foo']},
    {'id': ['Foo'], 'sym': ['foo'], 'inc': ['GObject-2.0', 'FooBar-1.0']},
    {'id': ['Foo', 'Bar'], 'sym': ['foo', 'bar'], 'inc': ['FooBar-1.0', 'GObject-2.0']},
]


def uscore(name):
    out = ''
    for i, ch in enumerate(name):
        if ch.isupper() and i > 0:
            out += '_'
        out += ch.lower()
    return out


def T(name, ptr=0, const=False):
    return ty(name, 'typedef', CONST if const else 0, [0] * ptr)


@st.composite
def _case(draw):
    cfg = draw(st.sampled_from(CONFIGS))
    accept = draw(st.sampled_from([False, False, True]))
    idp = cfg['id']
    symp = cfg['sym']
    ntypes = draw(st.integers(2, 6))
    names = draw(st.lists(st.sampled_from(TYPE_NAMES), min_size=ntypes, max_size=ntypes, unique=True))
    types = []
    for nm in names:
        kind = draw(st.sampled_from(['record', 'record', 'opaque', 'union', 'boxed', 'class', 'class', 'enum', 'callback', 'alias']))
        types.append({'name': nm, 'kind': kind, 'idp': draw(st.sampled_from(idp)), 'symp': draw(st.sampled_from(symp)),
                      'order': draw(st.sampled_from(['typedef-first', 'struct-first', 'combined', 'anon', 'two-typedefs'])),
                      'parent': None})
    classes = [t for t in types if t['kind'] == 'class']
    for i, t in enumerate(classes):
        if i > 0 and draw(st.booleans()):
            t['parent'] = classes[i - 1]['name']
    funcs = []
    nfun = draw(st.integers(2, 10))
    for i in range(nfun):
        shape = draw(st.sampled_from(['method', 'method', 'ctor', 'ctor', 'static', 'near-miss', 'wrong-first', 'plain', 'hidden',
                                      'foreign', 'unprefixed', 'ctor-other-ret', 'ptrptr-first', 'value-first', 'foreign-first',
                                      'include-extends-prefix']))
        t = draw(st.sampled_from(types))
        sp = draw(st.sampled_from(symp))
        verb = draw(st.sampled_from(VERBS))
        f = {'shape': shape, 'type': t['name'], 'verb': verb, 'symp': sp, 'idx': i,
             'other': draw(st.sampled_from(types))['name']}
        funcs.append(f)
    consts = []
    for i in range(draw(st.integers(0, 4))):
        consts.append({'shape': draw(st.sampled_from(['public', 'hidden', 'foreign', 'unprefixed'])),
                       'symp': draw(st.sampled_from(symp)), 'idx': i})
    return {'cfg': cfg, 'accept': accept, 'types': types, 'funcs': funcs, 'consts': consts,
            'shuffle': draw(st.integers(0, 10 ** 6))}


def _cname(t):
    return t['idp'] + t['name']


def build(case):
    """-> (decls, dump_xml, model) where model lists the public C names and what we know about them."""
    types = case['types']
    tmap = dict((t['name'], t) for t in types)
    decls = []
    dump = []
    model = {'types': {}, 'funcs': {}, 'consts': {}, 'gettype': {}, 'absent': set()}
    for t in types:
        cn = _cname(t)
        k = t['kind']
        us = uscore(t['name'])
        if k in ('record', 'opaque', 'union', 'boxed', 'class'):
            ckind = 'union' if k == 'union' else 'struct'
            fields = None if k == 'opaque' else [{'name': 'x', 'type': ty('int')}]
            if k == 'class':
                ptype = 'GObject' if not t['parent'] else _cname(tmap[t['parent']])
                fields = [{'name': 'parent_instance', 'type': T(ptype)}]
            order = t['order']
            tag = '_' + cn
            if k == 'opaque':
                decls.append({'d': 'compound', 'kind': ckind, 'tag': tag, 'typedef': cn, 'fields': None})
            elif order == 'anon' and k != 'class':
                decls.append({'d': 'compound', 'kind': ckind, 'tag': None, 'typedef': cn, 'fields': fields})
            elif order == 'combined':
                decls.append({'d': 'compound', 'kind': ckind, 'tag': tag, 'typedef': cn, 'fields': fields})
            elif order == 'struct-first' and k != 'class':
                decls.append({'d': 'compound', 'kind': ckind, 'tag': tag, 'typedef': None, 'fields': fields})
                decls.append({'d': 'compound', 'kind': ckind, 'tag': tag, 'typedef': cn, 'fields': None})
            else:
                decls.append({'d': 'compound', 'kind': ckind, 'tag': tag, 'typedef': cn, 'fields': None})
                decls.append({'d': 'compound', 'kind': ckind, 'tag': tag, 'typedef': None, 'fields': fields})
            model['types'][cn] = t
            if order == 'two-typedefs' and k in ('record', 'union'):
                cn2 = cn + 'Alt'
                decls.append({'d': 'compound', 'kind': ckind, 'tag': tag, 'typedef': cn2, 'fields': None})
                model['types'][cn2] = dict(t, name=t['name'] + 'Alt', kind=k)
            if k in ('boxed', 'class'):
                gt = '%s_%s_get_type' % (t['symp'], us)
                decls.append({'d': 'function', 'name': gt, 'ret': T('GType'), 'params': []})
                model['gettype'][gt] = cn
                if k == 'boxed':
                    dump.append('<boxed name="%s" get-type="%s"/>' % (cn, gt))
                else:
                    chain = []
                    p = t
                    while p['parent']:
                        p = tmap[p['parent']]
                        chain.append(_cname(p))
                    chain.append('GObject')
                    dump.append('<class name="%s" get-type="%s" parents="%s"></class>' % (cn, gt, ','.join(chain)))
                    ccn = cn + 'Class'
                    pclass = 'GObjectClass' if not t['parent'] else _cname(tmap[t['parent']]) + 'Class'
                    decls.append({'d': 'compound', 'kind': 'struct', 'tag': '_' + ccn, 'typedef': ccn,
                                  'fields': [{'name': 'parent_class', 'type': T(pclass)}]})
                    model['types'][ccn] = {'name': t['name'] + 'Class', 'kind': 'classstruct', 'idp': t['idp']}
        elif k == 'enum':
            up = uscore(t['name']).upper()
            decls.append({'d': 'enum', 'name': cn, 'tag': None, 'flags': False,
                          'members': [{'name': '%s_%s_A' % (t['symp'].upper(), up), 'value': None},
                                      {'name': '%s_%s_B' % (t['symp'].upper(), up), 'value': None}]})
            model['types'][cn] = t
        elif k == 'callback':
            decls.append({'d': 'callback', 'name': cn, 'ret': ty('void', 'void'), 'params': [param('data', T('gpointer'))]})
            model['types'][cn] = t
        else:
            decls.append({'d': 'typedef', 'name': cn, 'type': T('gint')})
            model['types'][cn] = t
    # a class must be declared after its parent: the list above keeps generation order, parents come first
    for f in case['funcs']:
        t = tmap[f['type']]
        o = tmap[f['other']]
        cn, us = _cname(t), uscore(t['name'])
        sp = f['symp']
        shape = f['shape']
        verb = f['verb'] + str(f['idx'])
        self_p = param('self', T(cn, 1))
        if shape == 'method':
            name, ret, params = '%s_%s_%s' % (sp, us, verb), ty('void', 'void'), [self_p, param('v', ty('int'))]
        elif shape == 'ctor':
            name, ret, params = '%s_%s_new%s' % (sp, us, '_%d' % f['idx']), T(cn, 1), [param('v', ty('int'))]
        elif shape == 'ctor-other-ret':
            name, ret, params = '%s_%s_new_o%d' % (sp, us, f['idx']), T(_cname(o), 1), []
        elif shape == 'static':
            name, ret, params = '%s_%s_%s' % (sp, us, verb), ty('int'), [param('v', ty('int'))]
        elif shape == 'near-miss':
            name, ret, params = '%s_%s%s' % (sp, us, verb.replace('_', '')), ty('void', 'void'), [self_p]
        elif shape == 'wrong-first':
            name, ret, params = '%s_%s_%s' % (sp, us, verb), ty('void', 'void'), [param('o', T(_cname(o), 1)), self_p]
        elif shape == 'ptrptr-first':
            name, ret, params = '%s_%s_%s' % (sp, us, verb), ty('void', 'void'), [param('self', T(cn, 2))]
        elif shape == 'value-first':
            name, ret, params = '%s_%s_%s' % (sp, us, verb), ty('void', 'void'), [param('v', ty('int')), self_p]
        elif shape == 'foreign-first':
            # carries the prefix of a type of an *included* namespace and takes it first: stays a function here
            fo = [('object', 'GObject'), ('initially_unowned', 'GInitiallyUnowned'), ('closure', 'GClosure')][f['idx'] % 3]
            name, ret, params = '%s_%s_%s' % (sp, fo[0], verb), ty('void', 'void'), [param('self', T(fo[1], 1))]
        elif shape == 'include-extends-prefix':
            # also matches the longer symbol prefix foo_bar of the included namespace FooBar (when it is
            # included): the namespace being scanned takes precedence
            name, ret, params = '%s_bar_%s' % (sp, verb), ty('int'), [param('v', ty('int'))]
        elif shape == 'plain':
            name, ret, params = '%s_%s' % (sp, verb), ty('int'), [param('v', ty('int'))]
        elif shape == 'hidden':
            name, ret, params = '_%s_%s_%s' % (sp, us, verb), ty('void', 'void'), [self_p]
        elif shape == 'foreign':
            name, ret, params = 'glib_%s_%s' % (us, verb), ty('void', 'void'), [param('v', ty('int'))]
        else:
            name, ret, params = 'zz%s_%s' % (us, verb), ty('void', 'void'), [param('v', ty('int'))]
        if name in model['funcs'] or name in model['gettype'] or name in model['absent']:
            continue
        decls.append({'d': 'function', 'name': name, 'ret': ret, 'params': params})
        f = dict(f, first=(cmodel.decl_text(params[0]['type'], '').replace(' ', '') if params else None))
        if shape == 'hidden' or shape == 'foreign':
            model['absent'].add(name)
        elif shape == 'unprefixed':
            if case['accept']:
                model['funcs'][name] = dict(f, cname=cn, unprefixed=True)
            else:
                model['absent'].add(name)
        else:
            model['funcs'][name] = dict(f, cname=cn)
    for c in case['consts']:
        sp = c['symp'].upper()
        shape = c['shape']
        if shape == 'public':
            name = '%s_CONST_%d' % (sp, c['idx'])
            model['consts'][name] = c
        elif shape == 'hidden':
            name = '_%s_CONST_%d' % (sp, c['idx'])
            model['absent'].add(name)
        elif shape == 'foreign':
            name = 'GLIB_CONST_%d' % c['idx']
            model['absent'].add(name)
        else:
            name = 'ZZ_CONST_%d' % c['idx']
            if case['accept']:
                model['consts'][name] = dict(c, unprefixed=True)
            else:
                model['absent'].add(name)
        decls.append({'d': 'const', 'name': name, 'value': {'k': 'int', 'lit': c['idx']}})
    dump_xml = '<?xml version="1.0"?>\n<dump>\n%s\n</dump>\n' % '\n'.join(dump) if dump else None
    return decls, dump_xml, model


def strip_candidates(cname, prefixes, symbol=False):
    out = set()
    for p in prefixes:
        pp = p + '_' if symbol else p
        if symbol and cname.isupper():
            pp = pp.upper()
        if cname.startswith(pp) and len(cname) > len(pp):
            out.add(cname[len(pp):])
    return out


DEF_TAGS = set([GI + x for x in ('record', 'class', 'interface', 'union', 'enumeration', 'bitfield', 'callback', 'alias',
                                  'constant')] + [GLIB + 'boxed'])
FUNC_TAGS = set([GI + x for x in ('function', 'method', 'constructor')])


def check_case(case, ctx):
    decls, dump_xml, model = build(case)
    cfg = case['cfg']
    full = {'ns': {'name': 'Foo', 'version': '1.0', 'id_prefixes': cfg['id'], 'sym_prefixes': cfg['sym'],
                   'accept_unprefixed': case['accept']},
            'includes': cfg.get('inc', ['GObject-2.0']), 'decls': decls, 'comments': [], 'dump': dump_xml}
    try:
        res = pipeline.run(full, ctx.mkscratch())
    except Exception as e:
        raise Violation(crash_clause(e), repr(e))
    if res.fatal is not None:
        raise Violation('fatal-on-valid-input', res.fatal[:300])
    root = ET.fromstring(res.gir)
    ns = root.find(GI + 'namespace')
    parent = dict((c, p) for p in ns.iter() for c in p)

    # --- collect definitions by C name
    defs = {}
    for el in ns.iter():
        if el.get('moved-to') is not None:
            continue
        cid = None
        if el.tag in FUNC_TAGS:
            cid = el.get(C + 'identifier')
        elif el.tag in DEF_TAGS and parent.get(el) is ns:
            cid = el.get(C + 'type') or el.get(GLIB + 'type-name')
        if cid:
            defs.setdefault(cid, []).append(el)
    for cid, els in defs.items():
        if len(els) > 1:
            raise Violation('c-identifier-described-twice', '%s appears in %s' % (cid, [e.tag.split('}')[1] + ':' + str(e.get('name')) for e in els]))
    # --- every public in-namespace name exactly once, right GIR name
    id_pre = cfg['id']
    for cn, t in model['types'].items():
        if cn not in defs:
            raise Violation('public-type-missing', '%s (%s, order %s) not described; prefixes %r' % (cn, t['kind'], t.get('order'), id_pre))
        el = defs[cn][0]
        cands = strip_candidates(cn, id_pre)
        if el.get('name') not in cands:
            raise Violation('type-name-not-prefix-stripped', '%s named %r, candidates %r' % (cn, el.get('name'), sorted(cands)))
    for gt, cn in model['gettype'].items():
        if gt in defs:
            raise Violation('get-type-function-not-folded', '%s still described as %s' % (gt, defs[gt][0].tag))
        owners = [e for e in ns if e.get(GLIB + 'get-type') == gt]
        if len(owners) != 1:
            raise Violation('get-type-not-recorded-once', '%s recorded %d times' % (gt, len(owners)))
    for name in model['absent']:
        if name in defs:
            raise Violation('non-public-or-foreign-symbol-described', '%s described as %s' % (name, defs[name][0].tag))
    for name, c in model['consts'].items():
        if name not in defs:
            raise Violation('public-constant-missing', name)
        cands = strip_candidates(name, cfg['sym'], symbol=True)
        if c.get('unprefixed'):
            cands = set([name])
        if defs[name][0].get('name') not in cands:
            raise Violation('constant-name-not-prefix-stripped', '%s named %r, candidates %r' % (name, defs[name][0].get('name'), sorted(cands)))

    paired = missed = 0
    type_by_girname = {}
    for cn, t in model['types'].items():
        type_by_girname.setdefault(defs[cn][0].get('name'), cn)
    for name, f in model['funcs'].items():
        if name not in defs:
            raise Violation('public-function-missing', '%s (%s) not described; symbol prefixes %r accept_unprefixed=%r'
                            % (name, f['shape'], cfg['sym'], case['accept']))
        el = defs[name][0]
        owner = parent[el]
        stripped = set([name]) if f.get('unprefixed') else strip_candidates(name, cfg['sym'], symbol=True)
        kind = el.tag.split('}')[1]
        gname = el.get('name')
        if owner is ns:
            if kind != 'function':
                raise Violation('toplevel-method-or-constructor', '%s is a toplevel <%s>' % (name, kind))
            if gname not in stripped:
                raise Violation('function-name-not-prefix-stripped', '%s named %r, candidates %r' % (name, gname, sorted(stripped)))
        else:
            ocn = owner.get(C + 'type') or owner.get(GLIB + 'type-name')
            if ocn not in model['types']:
                raise Violation('owner-not-in-namespace', '%s placed in %r' % (name, ocn))
            ot = model['types'][ocn]
            ous = uscore(ot['name'])
            # name = stripped minus the owner's symbol prefix
            ok_names = set(s[len(ous) + 1:] for s in stripped if s.startswith(ous + '_'))
            if gname not in ok_names:
                raise Violation('member-name-not-owner-prefix-stripped', '%s in %s named %r, expected one of %r' % (name, ocn, gname, sorted(ok_names)))
            if kind == 'method':
                ip = el.find(GI + 'parameters/' + GI + 'instance-parameter')
                first_ctype = ip.find(GI + 'type').get(C + 'type') if ip is not None and ip.find(GI + 'type') is not None else None
                if first_ctype is None or first_ctype.replace(' ', '') != ocn + '*':
                    raise Violation('method-of-wrong-type', '%s is a method of %s but its first parameter is %r' % (name, ocn, first_ctype))
                if f.get('first') != ocn + '*':
                    raise Violation('method-without-instance-first-parameter', '%s (%s, declared first parameter %r) became a method of %s' % (name, f['shape'], f.get('first'), ocn))
            if kind == 'constructor':
                rv = el.find(GI + 'return-value/' + GI + 'type')
                rct = rv.get(C + 'type').replace(' ', '') if rv is not None and rv.get(C + 'type') else None
                # return type must be the owner or one of its ancestors
                anc = set([ocn + '*'])
                p = ot
                tmap = dict((t['name'], t) for t in case['types'])
                while p.get('parent'):
                    p = tmap[p['parent']]
                    anc.add(_cname(p) + '*')
                if rct not in anc:
                    raise Violation('constructor-returns-unrelated-type', '%s constructs %s but returns %r' % (name, ocn, rct))
                if ot['kind'] not in ('class', 'boxed'):
                    raise Violation('constructor-of-unregistered-type', '%s in %s (%s)' % (name, ocn, ot['kind']))
        # --- converse, only in the unambiguous case
        t = model['types'].get(f['cname'])
        if f['shape'] == 'method' and t is not None and t['kind'] in ('record', 'union', 'boxed', 'class', 'opaque') \
                and f['symp'] == cfg['sym'][0] and len(cfg['sym']) == 1:
            us = uscore(t['name'])
            longer = [o for o in case['types'] if uscore(o['name']).startswith(us + '_')]
            if not longer and not f['verb'].startswith('new'):
                if kind != 'method' or (owner.get(C + 'type') or owner.get(GLIB + 'type-name')) != f['cname']:
                    raise Violation('unambiguous-method-not-paired', '%s (first parameter %s*) emitted as %s of %r'
                                    % (name, f['cname'], kind, owner.get('name')))
        if f['shape'] == 'ctor' and t is not None and t['kind'] in ('boxed', 'class') and len(cfg['sym']) == 1:
            us = uscore(t['name'])
            longer = [o for o in case['types'] if uscore(o['name']).startswith(us + '_')]
            if not longer:
                if kind != 'constructor' or (owner.get(C + 'type') or owner.get(GLIB + 'type-name')) != f['cname']:
                    raise Violation('unambiguous-constructor-not-paired', '%s (returns %s*, a registered %s) emitted as %s of %r'
                                    % (name, f['cname'], t['kind'], kind, owner.get('name')))
        if f['shape'] == 'foreign-first' and owner is not ns:
            raise Violation('function-attached-to-foreign-or-unrelated-type', '%s placed in %r' % (name, owner.get('name')))
        if owner is not ns:
            paired += 1
        elif f['shape'] in ('near-miss', 'wrong-first', 'ptrptr-first', 'value-first', 'ctor-other-ret'):
            missed += 1
    ctx.label('cfg:%s' % '+'.join(cfg['id']))
    if 'inc' in cfg:
        ctx.label('include-extends-prefix')
    if case['accept']:
        ctx.label('accept-unprefixed')
    if paired:
        ctx.label('paired')
    if missed:
        ctx.label('narrow-miss')
    names = [t['name'] for t in case['types']]
    pp = any(a != b and uscore(b).startswith(uscore(a) + '_') for a in names for b in names)
    if pp:
        ctx.label('prefix-of-prefix-types')
    if (len(cfg['id']) > 1 or pp) and paired and missed:
        ctx.note_nontrivial(case)
        ctx.sample({'prefixes': cfg, 'header': cmodel.to_header_text(decls)[:1200]}, 3)


def plan(tier):
    n = 250 if tier == 'quick' else 5000
    return [{'n': n}] * 16


def run_shard(ctx, spec):
    ctx.hyp(_case(), spec['n'])


def health(agg, tier):
    ev = max(1, agg['evals'])
    probs = []
    for lab, frac in (('paired', 0.4), ('narrow-miss', 0.3), ('prefix-of-prefix-types', 0.2), ('accept-unprefixed', 0.15)):
        if agg['labels'].get(lab, 0) < frac * ev:
            probs.append('%s in %d of %d' % (lab, agg['labels'].get(lab, 0), ev))
    return probs
