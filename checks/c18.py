"""C18 - the dependency-GIR cache never serves stale or torn data.

The harness owns the schedule: for the duration of a case the module globals
giscanner.cachestore uses for file-system access (os, shutil, tempfile, pickle,
and `open` injected as a module global) and giscanner.girparser.parse are
replaced by proxies that perform the real operation inside a per-case scratch
directory and turn every file-system step into a yield point. Each actor (one
scanner process) runs in its own thread and advances one step only when the
scheduler grants it; the scheduler follows the case's list of actor choices.
Time is a logical clock (one tick per step) written into st_mtime with utime.
A crash is an actor that is never scheduled again.
"""
import errno
import hashlib
import json
import os
import re
import pickle as _pickle
import shutil as _shutil
import stat as _stat
import threading

from hypothesis import strategies as st

from vlib import pipeline
from vlib.cmodel import ty, param
from vlib.runner import Violation, HarnessError, crash_clause

ID = 'C18'
LEVEL = 'exploration'
RULE = ('Hypothesis-generated cases = (1-3 cache actors out of load / include (real Transformer._parse_include: load, '
        'on miss parse + store) / store, each with a scanner version 0|1 (1 = constructed after a scanner-version '
        'change: purge), 0-2 rewrites of the source GIR by a fourth actor, initial entry absent/valid/older/touched/'
        'truncated/garbage/unreadable, .cache-version present/absent, same-fs rename vs cross-fs copy+unlink, buffer '
        'chunk size, optional kill -9 point (after N steps, or just before the k-th step of a given kind), and the '
        'interleaving as a list of directives over the file-system steps (pick the i-th runnable actor for one '
        'step / run actor a until it is about to make a step of kind K / let actor a make n steps); flavours bias '
        'towards writer-vs-reader races, rewrites between parse and store, purges and mid-read replacement; a final '
        'sequential probe load observes the end state. thorough adds the bounded-exhaustive '
        'enumeration of all interleavings of two operations (steps on actor-private files merged). end-to-end: '
        'generated headers using GObject/GLib types run cold/warm/cache-disabled. non-trivial = a store\'s '
        'rename/copy step falls between a load\'s open and its last step, or a source rewrite falls between a parse '
        'and the corresponding store; distinct = hash of the case')
RULE = RULE + ' ' + "'garbage' entries are foreign content or the valid entry damaged in the middle (unknown protocol byte, non-UTF-8 byte inside a pickled name)."
ASSUMPTIONS = [
    'interleaving granularity = one system-call-like step (open, stat, read chunk, write chunk, close, rename, '
    'unlink, listdir, mkstemp; cross-fs move = open src, open/truncate dst, copy chunks, close, utime+chmod by path, '
    'unlink src, as shutil.move/copy2 do); steps are atomic and sequentially consistent',
    'logical clock: every step is a distinct instant, so equal mtimes arise only through copystat; mtime '
    'granularity effects are out of scope',
    'buffered data is written in chunks of the case\'s chunk size; a killed actor loses its unwritten buffer',
    'an "unreadable" entry is modelled by mode 000 (the harness raises EACCES on open, tests run as root)',
    'garbage entries are byte strings that are not pickles; well-formed pickles of foreign objects are out of domain',
    'provenance of a cached object is carried by a fixed-width tag attribute added to the stored GIRParser',
    'end-to-end clause uses substrate P (stub C front end) and the fixture GIRs',
]
TECHNIQUE = ('property-based testing (Hypothesis) with a deterministic cooperative scheduler over proxied file-system '
             'steps (threads used as coroutines), logical clock, crash injection; stateless DFS enumeration of '
             'two-operation interleavings; history-invariant oracle')
LEVEL_TEXT = ('Randomised search over schedules, crash points, initial states and source histories; bounded-exhaustive '
              'over two-operation interleavings of the smallest configurations (thorough tier). Oracle written from '
              'the statement as an invariant over the recorded history.')
LEVEL_NOTE = 'trusts the step model of the file system (see assumptions); two structural shapes of stale read, one torn read shape and one raise are excluded as known findings'
DESIGN_REF = 'DESIGN.md section 2, C18; section 5 item 3'

TAG_ATTR = '_verif_tag'
T0 = 100                  # logical clock at the start of a schedule; initial files carry smaller stamps
SRC_MTIME0 = 10
TIMEOUT = 60

SRC_TEMPLATE = '''<?xml version="1.0"?>
<repository version="1.2" xmlns="http://www.gtk.org/introspection/core/1.0" xmlns:c="http://www.gtk.org/introspection/c/1.0" xmlns:glib="http://www.gtk.org/introspection/glib/1.0">
  <package name="dep-1.0"/>
  <c:include name="dep/dep.h"/>
  <namespace name="Dep" version="1.0" shared-library="libdep.so.0" c:identifier-prefixes="Dep" c:symbol-prefixes="dep">
    <alias name="Stamp%(k)d" c:type="DepStamp%(k)d"><type name="gint" c:type="gint"/></alias>
    <enumeration name="Kind%(k)d" c:type="DepKind%(k)d">
      <member name="first" value="%(k)d" c:identifier="DEP_KIND%(k)d_FIRST"/>
      <member name="second" value="1%(k)d" c:identifier="DEP_KIND%(k)d_SECOND"/>
    </enumeration>
    <record name="Box" c:type="DepBox">
      <field name="size" writable="1"><type name="gint" c:type="gint"/></field>
      <field name="rev%(k)d" writable="1"><type name="Stamp%(k)d" c:type="DepStamp%(k)d"/></field>
    </record>
    <callback name="Notify" c:type="DepNotify">
      <return-value transfer-ownership="none"><type name="none" c:type="void"/></return-value>
      <parameters><parameter name="box" transfer-ownership="none"><type name="Box" c:type="DepBox*"/></parameter></parameters>
    </callback>
    <record name="Tail%(k)d" c:type="DepTail%(k)d">
      <field name="kind" writable="1"><type name="Kind%(k)d" c:type="DepKind%(k)d"/></field>
    </record>
  </namespace>
</repository>
'''
N_VERSIONS = 4    # 0 = content of an 'older' initial entry only; 1 = current at the start; 2, 3 = rewrites

GARBAGE = [b'', b'\x00', b'this is not a pickle\n', b'\x80\x04\x95\xff\xff\xff\xff\xff\xff\xff\x7f', b'\x80\x04N',
           b'<?xml version="1.0"?>\n<repository/>\n', b'\x80\x05\x95\x10\x00\x00\x00\x00\x00\x00\x00\x8c\x03abc']
N_DAMAGED = 4


def _garbage(i):
    """Content of a broken entry: one of the foreign byte strings above, or the valid entry damaged in the middle in
    a way that cannot load (an unknown protocol number; a byte that is not UTF-8 inside a pickled module/class name) -
    such damage makes pickle raise ValueError / UnicodeDecodeError rather than UnpicklingError or EOFError."""
    i %= len(GARBAGE) + N_DAMAGED
    if i < len(GARBAGE):
        return GARBAGE[i]
    k = i - len(GARBAGE)
    b = bytearray(_PICKLES[1])
    if k == 0:
        b[1] = 0x7f
        return bytes(b)
    hits = [m.start() for m in re.finditer(b'giscanner', bytes(b))]
    if not hits:
        raise HarnessError('C18: no module name found in the pickled entry')
    pos = hits[(k * 7) % len(hits)] + k
    b[pos] = 0xff
    return bytes(b)


INITS = ['absent', 'valid', 'older', 'touched', 'truncated', 'garbage', 'unreadable']
OPS = ['load', 'include', 'store']
SHARED_ROLES = ('entry', 'ver', 'src', 'cache')
INSTALL_KINDS = ('rename', 'copy-open-dst', 'copy-chunk', 'copystat', 'open-w', 'write')

KEY_B = 'stale:parse<rewrite<store'
KEY_A = 'stale:open<replace<stat-by-path'
KEY_TORN = 'torn:cross-fs-copy-into-live-entry'
KEY_EACCES = 'raise:unreadable-entry'
KEY_COPYSTAT = 'raise:store-cross-fs-entry-removed-during-copy'


class Killed(BaseException):
    """Raised inside the proxies of an abandoned actor *after* the case has been judged,
    only to let its thread unwind; every proxy is a no-op for a killed actor."""


# ------------------------------------------------------------------ modules under test
_MODS = None


def mods():
    global _MODS
    if _MODS is None:
        m = pipeline.M()
        from giscanner import cachestore, girparser, transformer
        _MODS = {'cachestore': cachestore, 'girparser': girparser, 'transformer': transformer,
                 'ast': m['ast'], 'real_parse': girparser.parse}
    return _MODS


# ------------------------------------------------------------------ fingerprints
def _canon(o, memo, root):
    if o is None or isinstance(o, (bool, int, float)):
        return o
    if isinstance(o, str):
        return o.replace(root, '<ROOT>') if root else o
    if isinstance(o, bytes):
        return ['bytes', o.decode('latin-1')]
    oid = id(o)
    if oid in memo:
        return ['ref', memo[oid]]
    memo[oid] = len(memo)
    if isinstance(o, (list, tuple)):
        return [type(o).__name__] + [_canon(x, memo, root) for x in o]
    if isinstance(o, dict):
        return ['dict'] + [[_canon(k, memo, root), _canon(v, memo, root)] for k, v in o.items()]
    if isinstance(o, (set, frozenset)):
        items = sorted(o, key=lambda x: json.dumps(_canon(x, {}, root), sort_keys=True, default=repr))
        return ['set'] + [_canon(x, memo, root) for x in items]
    cls = '%s.%s' % (type(o).__module__, type(o).__qualname__)
    d = getattr(o, '__dict__', None)
    if d is None:
        slots = []
        for c in type(o).__mro__:
            slots.extend(getattr(c, '__slots__', ()))
        if not slots:
            return ['opaque', cls, repr(o)]
        d = dict((s, getattr(o, s)) for s in slots if hasattr(o, s))
    return ['obj', cls, [[k, _canon(v, memo, root)] for k, v in sorted(d.items()) if k != TAG_ATTR]]


def fingerprint(obj, root=None):
    """Deep structural fingerprint of a GIRParser (whole object graph, tag excluded)."""
    s = json.dumps(_canon(obj, {}, root), sort_keys=True, default=repr)
    return hashlib.sha1(s.encode('utf-8', 'replace')).hexdigest()


def api_summary(obj):
    try:
        ns = obj.get_namespace()
        return '%s-%s %s' % (ns.name, ns.version, sorted(ns.names))
    except Exception as e:  # noqa
        return 'unusable object %r (%s)' % (type(obj).__name__, e)


def _parse_version(k, path):
    with open(path, 'w') as f:
        f.write(SRC_TEMPLATE % {'k': k})
    p = mods()['girparser'].GIRParser(types_only=True)
    p.parse(path)
    return p


def make_tag(actor, ver, version, t):
    return 'a%dv%dk%dt%06d' % (actor, ver, version, t)


def read_tag(obj):
    tag = getattr(obj, TAG_ATTR, None)
    if not isinstance(tag, str) or len(tag) != 13:
        return None
    try:
        return {'actor': int(tag[1]), 'ver': int(tag[3]), 'version': int(tag[5]), 't': int(tag[7:])}
    except ValueError:
        return None


# ------------------------------------------------------------------ world, actors, scheduler
_ACTORS = {}      # thread ident -> Actor
_WORLD = [None]   # the active world (main thread acts through its `direct` actor)


def _cur():
    a = _ACTORS.get(threading.get_ident())
    if a is not None:
        return a
    w = _WORLD[0]
    return w.direct if w is not None else None


class _FakeStat(object):
    """stat of a file outside the case directory (scanner sources): the mtime encodes
    the actor's scanner version, so _get_versionhash differs exactly between versions."""

    def __init__(self, ver):
        self.st_mtime = 1000.0 + ver
        self.st_mode = 0o100644
        self.st_size = 0
        self.st_ino = 0


class World(object):
    def __init__(self, case, root):
        self.case = case
        self.root = root
        self.cachehome = os.path.join(root, 'xdg')
        self.cachedir = os.path.join(self.cachehome, 'g-ir-scanner')
        self.tmpdir = os.path.join(root, 'tmp')
        self.srcdir = os.path.join(root, 'src')
        self.src = os.path.join(self.srcdir, 'Dep-1.0.gir')
        self.verfile = os.path.join(self.cachedir, '.cache-version')
        self.entry = None
        self.clock = T0
        self.log = []
        self.chunk = int(case.get('chunk', 4096))
        self.cross = bool(case.get('cross'))
        self.coarse = bool(case.get('coarse'))
        self.precon = bool(case.get('preconstruct'))
        self.n_rewrites = int(case.get('rewrites', 0))
        self.keep = []          # dup'ed fds that pin every inode of the case (no inode number reuse)
        self.openfds = set()
        self.fdrole = {}
        self.fdpath = {}
        self.hist = {}          # ino -> [(step time, mtime)]
        self.src_hist = [(0, SRC_MTIME0)]
        self.rewrites = [(0, 1)]   # (step time, version)
        self.cur_version = 1
        self.tmpcount = 0
        self.back = threading.Semaphore(0)
        self.direct = Actor(self, -1, 'direct', 0)
        self.direct.direct = True
        self.trace = []

    def role(self, path):
        path = os.path.abspath(path)
        if path == self.entry:
            return 'entry'
        if path == self.verfile:
            return 'ver'
        if path == self.src:
            return 'src'
        d = os.path.dirname(path)
        if d == self.tmpdir:
            return 'tmp'
        if d == self.cachedir:
            return 'cache'
        if path.startswith(self.root + os.sep):
            return 'other'
        return None

    def shared(self, role):
        if role == 'src':
            return self.n_rewrites > 0
        return role in SHARED_ROLES

    def fs_of(self, path):
        return 'tmpfs' if os.path.dirname(os.path.abspath(path)) == self.tmpdir else 'home'

    def pin(self, fd):
        self.keep.append(os.dup(fd))

    def stamp(self, target, t, mtime=None):
        mtime = t if mtime is None else mtime
        os.utime(target, (mtime, mtime))
        stt = os.fstat(target) if isinstance(target, int) else os.stat(target)
        self.hist.setdefault(stt.st_ino, []).append((t, mtime))
        return stt.st_ino

    def wait_back(self):
        if not self.back.acquire(timeout=TIMEOUT):
            raise HarnessError('C18 scheduler: an actor did not reach a yield point within %d s' % TIMEOUT)


class Actor(object):
    def __init__(self, world, idx, op, ver):
        self.world = world
        self.idx = idx
        self.op = op
        self.ver = ver
        self.go = threading.Semaphore(0)
        self.state = 'new'
        self.killed = False
        self.crashed = False
        self.direct = False
        self.granted = 0
        self.phase = 'ctor'
        self.cur = None
        self.last_parse = None
        self.error = None
        self.worker = None
        self.pending = None
        self.kinds = {}
        self.loads = []
        self.stores = []
        self.ctor = {'first': None, 'last': None, 'done': False}

    # -- one file-system step ------------------------------------------------
    def step(self, kind, fn, shared=True, **info):
        w = self.world
        if self.killed:
            raise Killed()
        park = not self.direct
        if park and w.precon and self.phase == 'ctor':
            park = False
        if park and w.coarse and not shared:
            park = False
        if park:
            self.pending = kind
            self.state = 'parked'
            w.back.release()
            self.go.acquire()
            if self.killed:
                raise Killed()
            self.granted += 1
        self.kinds[kind] = self.kinds.get(kind, 0) + 1
        w.clock += 1
        t = w.clock
        e = {'t': t, 'a': self.idx, 'k': kind, 'phase': self.phase}
        e.update(info)
        w.log.append(e)
        if self.cur is not None:
            self.cur['steps'].append(e)
        if self.phase == 'ctor' and not self.direct:
            if self.ctor['first'] is None:
                self.ctor['first'] = t
            self.ctor['last'] = t
        try:
            return fn(t, e)
        except OSError as ex:
            e['err'] = errno.errorcode.get(ex.errno, str(ex.errno))
            raise

    # -- thread body ----------------------------------------------------------
    def start(self):
        self.state = 'running'
        self.worker = _Worker.get()
        self.worker.run(self)
        self.world.wait_back()

    def alive(self):
        return self.state != 'done'

    def _main(self):
        _ACTORS[threading.get_ident()] = self
        try:
            self.script()
        except Killed:
            pass
        except BaseException as e:  # noqa - recorded, judged by the oracle
            self.error = e
        finally:
            _ACTORS.pop(threading.get_ident(), None)
            self.state = 'done'

    def script(self):
        m = mods()
        w = self.world
        self.phase = 'ctor'
        tr = None
        if self.op == 'include':
            tr = m['transformer'].Transformer(m['ast'].Namespace('Top', '1.0'))
            cs = tr._cachestore
        else:
            cs = m['cachestore'].CacheStore()
        self.ctor['done'] = True
        self.phase = 'run'
        self._wrap(cs)
        if self.op == 'load':
            cs.load(w.src)
        elif self.op == 'store':
            p = m['girparser'].GIRParser(types_only=True)
            p.parse(w.src)
            cs.store(w.src, p)
        else:
            tr._parse_include(w.src)

    def _wrap(self, cs):
        actor = self
        w = self.world
        orig_load, orig_store = cs.load, cs.store

        def load(filename):
            rec = {'a': actor.idx, 'ver': actor.ver, 'steps': [], 'obj': None, 'exc': None, 'broken': None,
                   'ret': False, 'killed': False, 'after_ino': None}
            actor.loads.append(rec)
            actor.cur = rec
            try:
                r = orig_load(filename)
            except Killed:
                rec['killed'] = True
                raise
            except BaseException as e:  # noqa
                rec['exc'] = e
                raise
            finally:
                actor.cur = None
                try:
                    rec['after_ino'] = os.stat(w.entry).st_ino
                except OSError:
                    rec['after_ino'] = None
            rec['ret'] = True
            rec['obj'] = r
            return r

        def store(filename, data):
            pv, pt = actor.last_parse if actor.last_parse else (-1, 0)
            if getattr(data, TAG_ATTR, None) is None:
                try:
                    setattr(data, TAG_ATTR, make_tag(actor.idx, actor.ver, pv, pt))
                except Exception:  # noqa
                    pass
            rec = {'a': actor.idx, 'ver': actor.ver, 'steps': [], 'exc': None, 'ret': False, 'killed': False,
                   'version': pv, 'parse_t': pt}
            actor.stores.append(rec)
            actor.cur = rec
            try:
                r = orig_store(filename, data)
            except Killed:
                rec['killed'] = True
                raise
            except BaseException as e:  # noqa
                rec['exc'] = e
                raise
            finally:
                actor.cur = None
            rec['ret'] = True
            return r

        cs.load = load
        cs.store = store


class _Worker(object):
    """A pooled thread that runs one actor script at a time (thread creation is expensive on this VM)."""
    free = []
    count = 0

    def __init__(self):
        self.job = threading.Semaphore(0)
        self.actor = None
        self.done = threading.Semaphore(0)
        _Worker.count += 1
        self.thread = threading.Thread(target=self._loop, name='c18-worker-%d' % _Worker.count, daemon=True)
        self.thread.start()

    @classmethod
    def get(cls):
        return cls.free.pop() if cls.free else cls()

    def run(self, actor):
        self.actor = actor
        self.job.release()

    def _loop(self):
        while True:
            self.job.acquire()
            a = self.actor
            try:
                a._main()
            finally:
                self.actor = None
                _Worker.free.append(self)
                self.done.release()
                a.world.back.release()

    def wait_done(self, timeout):
        return self.done.acquire(timeout=timeout)


class Rewriter(Actor):
    def script(self):
        w = self.world
        self.phase = 'run'
        for i in range(w.n_rewrites):
            version = 2 + i

            def fn(t, e, version=version):
                tmp = w.src + '.new'
                with open(tmp, 'w') as f:
                    f.write(SRC_TEMPLATE % {'k': version})
                fd = os.open(tmp, os.O_RDONLY)
                w.pin(fd)
                os.close(fd)
                os.utime(tmp, (t, t))
                os.replace(tmp, w.src)
                w.src_hist.append((t, t))
                w.rewrites.append((t, version))
                w.cur_version = version
                e['version'] = version
            self.step('rewrite', fn, shared=True, role='src')


# ------------------------------------------------------------------ proxies
def _eacces_check(path):
    """Model of a file owned by somebody else with mode 000 (tests run as root)."""
    try:
        stt = os.stat(path)
    except OSError:
        return
    if not (stt.st_mode & 0o400):
        raise PermissionError(errno.EACCES, 'Permission denied', path)


class Reader(object):
    def __init__(self, actor, fd, path, text, encoding):
        self.actor = actor
        self.fd = fd
        self.role = actor.world.role(path)
        self.shared = actor.world.shared(self.role)
        self.ino = os.fstat(fd).st_ino
        self.text = text
        self.encoding = encoding or 'utf-8'
        self.closed = False

    def fileno(self):
        return self.fd

    def readall_steps(self):
        a, w = self.actor, self.actor.world
        out = []
        while True:
            def fn(t, e):
                b = os.read(self.fd, w.chunk)
                e['n'] = len(b)
                return b
            b = a.step('read', fn, shared=self.shared, role=self.role, ino=self.ino)
            if not b:
                break
            out.append(b)
        return b''.join(out)

    def read(self, n=-1):
        data = self.readall_steps()
        return data.decode(self.encoding) if self.text else data

    def close(self):
        if self.closed:
            return
        w = self.actor.world

        def fn(t, e):
            self.closed = True
            w.openfds.discard(self.fd)
            os.close(self.fd)
        self.actor.step('close', fn, shared=False, role=self.role, ino=self.ino)

    def __enter__(self):
        return self

    def __exit__(self, *exc):
        self.close()
        return False


class Writer(object):
    def __init__(self, actor, fd, text, encoding):
        self.actor = actor
        self.fd = fd
        w = actor.world
        self.role = w.fdrole.get(fd, 'tmp')
        self.shared = w.shared(self.role)
        self.ino = os.fstat(fd).st_ino
        self.text = text
        self.encoding = encoding or 'utf-8'
        self.buf = b''
        self.closed = False

    def fileno(self):
        return self.fd

    def write(self, data):
        if self.text:
            data = data.encode(self.encoding)
        self.buf += bytes(data)
        while len(self.buf) >= self.actor.world.chunk:
            self._flush1()
        return len(data)

    def _flush1(self):
        w = self.actor.world
        piece = self.buf[:w.chunk]

        def fn(t, e):
            os.write(self.fd, piece)
            w.stamp(self.fd, t)
            e['n'] = len(piece)
        self.actor.step('write', fn, shared=self.shared, role=self.role, ino=self.ino)
        self.buf = self.buf[len(piece):]

    def flush(self):
        while self.buf:
            self._flush1()

    def close(self):
        if self.closed:
            return
        self.flush()
        w = self.actor.world

        def fn(t, e):
            self.closed = True
            w.openfds.discard(self.fd)
            os.close(self.fd)
        self.actor.step('close', fn, shared=False, role=self.role, ino=self.ino)

    def __enter__(self):
        return self

    def __exit__(self, *exc):
        self.close()
        return False


def _open_read(a, path, text, encoding):
    w = a.world
    role = w.role(path)

    def fn(t, e):
        _eacces_check(path)
        fd = os.open(path, os.O_RDONLY)
        w.openfds.add(fd)
        e['ino'] = os.fstat(fd).st_ino
        return fd
    fd = a.step('open', fn, shared=w.shared(role), role=role)
    return Reader(a, fd, path, text, encoding)


def _open_write_fd(a, path, kind='open-w', excl=False, trunc=True, mode=0o644):
    w = a.world
    role = w.role(path)

    def fn(t, e):
        existed = os.path.lexists(path)
        if existed:
            _eacces_check(path)
        flags = os.O_WRONLY | os.O_CREAT | (os.O_TRUNC if trunc else 0) | (os.O_EXCL if excl else 0)
        fd = os.open(path, flags, mode)
        w.openfds.add(fd)
        w.fdrole[fd] = role
        if not existed:
            w.pin(fd)
        e['ino'] = os.fstat(fd).st_ino
        e['created'] = not existed
        if trunc or not existed:
            w.stamp(fd, t)
        return fd
    return a.step(kind, fn, shared=w.shared(role), role=role)


def proxy_open(path, mode='r', buffering=-1, encoding=None, *args, **kw):
    a = _cur()
    if a is None:
        return open(path, mode, buffering, encoding, *args, **kw)
    text = 'b' not in mode
    if 'w' in mode:
        return Writer(a, _open_write_fd(a, path), text, encoding)
    if 'r' in mode and '+' not in mode:
        return _open_read(a, path, text, encoding)
    raise HarnessError('C18 proxy: open mode %r is not modelled' % mode)


_OS_PURE = set(['fspath', 'getpid', 'getcwd', 'strerror', 'fsencode', 'fsdecode', 'getenv', 'getuid', 'geteuid',
                'umask', 'urandom', 'getppid', 'cpu_count'])


class OsProxy(object):
    def __init__(self):
        self.path = os.path
        self.environ = os.environ

    def __getattr__(self, name):
        v = getattr(os, name)
        if not callable(v) or name in _OS_PURE or isinstance(v, type):
            return v

        def generic(*args, **kw):
            a = _cur()
            if a is None:
                return v(*args, **kw)
            return a.step('os.' + name, lambda t, e: v(*args, **kw), shared=True)
        return generic

    def stat(self, path, *args, **kw):
        a = _cur()
        if a is None:
            return os.stat(path, *args, **kw)
        w = a.world
        if isinstance(path, int):
            return self.fstat(path)
        role = w.role(path)
        if role is None:
            return _FakeStat(a.ver)

        def fn(t, e):
            stt = os.stat(path)
            e['ino'] = stt.st_ino
            e['mtime'] = stt.st_mtime
            return stt
        return a.step('stat', fn, shared=w.shared(role), role=role)

    def fstat(self, fd):
        a = _cur()
        if a is None:
            return os.fstat(fd)

        def fn(t, e):
            stt = os.fstat(fd)
            e['ino'] = stt.st_ino
            e['mtime'] = stt.st_mtime
            return stt
        return a.step('fstat', fn, shared=True, role=a.world.fdrole.get(fd))

    def unlink(self, path, *args, **kw):
        a = _cur()
        if a is None:
            return os.unlink(path)
        w = a.world
        role = w.role(path)

        def fn(t, e):
            try:
                e['ino'] = os.lstat(path).st_ino
            except OSError:
                pass
            os.unlink(path)
        return a.step('unlink', fn, shared=w.shared(role), role=role)

    remove = unlink

    def listdir(self, path='.'):
        a = _cur()
        if a is None:
            return os.listdir(path)
        return a.step('listdir', lambda t, e: sorted(os.listdir(path)), shared=True, role='cache')

    def fdopen(self, fd, mode='r', buffering=-1, encoding=None, *args, **kw):
        a = _cur()
        if a is None:
            return os.fdopen(fd, mode, buffering, encoding, *args, **kw)
        text = 'b' not in mode
        if 'w' in mode or 'a' in mode:
            return Writer(a, fd, text, encoding)
        return Reader(a, fd, a.world.fdpath.get(fd, a.world.tmpdir + '/x'), text, encoding)

    def open(self, path, flags, mode=0o777, *args, **kw):
        a = _cur()
        if a is None:
            return os.open(path, flags, mode)
        w = a.world
        if flags & (os.O_WRONLY | os.O_RDWR):
            fd = _open_write_fd(a, path, kind='open-w', excl=bool(flags & os.O_EXCL),
                                trunc=bool(flags & os.O_TRUNC), mode=mode & 0o777)
        else:
            role = w.role(path)

            def fn(t, e):
                _eacces_check(path)
                fd = os.open(path, os.O_RDONLY)
                w.openfds.add(fd)
                e['ino'] = os.fstat(fd).st_ino
                return fd
            fd = a.step('open', fn, shared=w.shared(role), role=role)
        w.fdpath[fd] = path
        return fd

    def close(self, fd):
        a = _cur()
        if a is None:
            return os.close(fd)
        w = a.world

        def fn(t, e):
            w.openfds.discard(fd)
            os.close(fd)
        return a.step('close', fn, shared=False, role=w.fdrole.get(fd))

    def write(self, fd, data):
        a = _cur()
        if a is None:
            return os.write(fd, data)
        w = a.world
        role = w.fdrole.get(fd, 'tmp')

        def fn(t, e):
            n = os.write(fd, data)
            w.stamp(fd, t)
            return n
        return a.step('write', fn, shared=w.shared(role), role=role, ino=os.fstat(fd).st_ino)

    def rename(self, src, dst, *args, **kw):
        a = _cur()
        if a is None:
            return os.rename(src, dst)
        return _rename(a, src, dst)

    replace = rename


def _rename(a, src, dst):
    w = a.world
    role = w.role(dst)

    def fn(t, e):
        e['ino'] = os.stat(src).st_ino
        e['src_role'] = w.role(src)
        os.rename(src, dst)
    return a.step('rename', fn, shared=w.shared(role) or w.shared(w.role(src)), role=role)


class ShutilProxy(object):
    def __getattr__(self, name):
        return getattr(_shutil, name)

    def move(self, src, dst, copy_function=None):
        a = _cur()
        if a is None:
            return _shutil.move(src, dst)
        w = a.world
        if not (w.cross and w.fs_of(src) != w.fs_of(dst)):
            _rename(a, src, dst)
            return dst
        # os.rename fails with EXDEV; shutil.move falls back to copy2 (copyfile + copystat) + unlink
        drole = w.role(dst)
        dshared = w.shared(drole)
        srole = w.role(src)

        def o1(t, e):
            fd = os.open(src, os.O_RDONLY)
            w.openfds.add(fd)
            return fd
        fs = a.step('copy-open-src', o1, shared=False, role=srole)

        def o2(t, e):
            existed = os.path.lexists(dst)
            try:
                if existed:
                    _eacces_check(dst)
                fd = os.open(dst, os.O_WRONLY | os.O_CREAT | os.O_TRUNC, 0o644)
            except OSError:
                w.openfds.discard(fs)
                os.close(fs)
                raise
            w.openfds.add(fd)
            if not existed:
                w.pin(fd)
            e['ino'] = os.fstat(fd).st_ino
            e['created'] = not existed
            w.stamp(fd, t)
            return fd
        fd = a.step('copy-open-dst', o2, shared=dshared, role=drole)
        ino = os.fstat(fd).st_ino
        while True:
            def c(t, e):
                b = os.read(fs, w.chunk)
                e['n'] = len(b)
                if b:
                    os.write(fd, b)
                    w.stamp(fd, t)
                return len(b)
            if not a.step('copy-chunk', c, shared=dshared, role=drole, ino=ino):
                break

        def cl(t, e):
            for f in (fd, fs):
                w.openfds.discard(f)
                os.close(f)
        a.step('copy-close', cl, shared=False, role=drole, ino=ino)

        def cs(t, e):
            stt = os.stat(src)
            os.utime(dst, ns=(stt.st_atime_ns, stt.st_mtime_ns))
            dino = os.stat(dst).st_ino
            e['ino'] = dino
            w.hist.setdefault(dino, []).append((t, stt.st_mtime))
            os.chmod(dst, _stat.S_IMODE(stt.st_mode))
        a.step('copystat', cs, shared=dshared, role=drole)
        a.step('unlink-src', lambda t, e: os.unlink(src), shared=False, role=srole)
        return dst


class TempfileProxy(object):
    def __getattr__(self, name):
        import tempfile
        return getattr(tempfile, name)

    def mkstemp(self, suffix=None, prefix=None, dir=None, text=False):
        a = _cur()
        if a is None:
            import tempfile
            return tempfile.mkstemp(suffix, prefix, dir, text)
        w = a.world
        d = dir or w.tmpdir
        role = w.role(os.path.join(d, 'x'))

        def fn(t, e):
            w.tmpcount += 1
            path = os.path.join(d, '%s%04d%s' % (prefix or 'tmp', w.tmpcount, suffix or ''))
            fd = os.open(path, os.O_RDWR | os.O_CREAT | os.O_EXCL, 0o600)
            w.openfds.add(fd)
            w.fdrole[fd] = role
            w.fdpath[fd] = path
            w.pin(fd)
            e['ino'] = w.stamp(fd, t)
            e['path'] = os.path.basename(path)
            return fd, path
        return a.step('mkstemp', fn, shared=w.shared(role), role=role)


class PickleProxy(object):
    def __getattr__(self, name):
        return getattr(_pickle, name)

    def dump(self, obj, f, *args, **kw):
        f.write(_pickle.dumps(obj, *args, **kw))

    def load(self, f, *args, **kw):
        if not isinstance(f, Reader):
            return _pickle.load(f, *args, **kw)
        data = f.readall_steps()
        try:
            return _pickle.loads(data, *args, **kw)
        except Exception as ex:
            rec = f.actor.cur
            if rec is not None:
                rec['broken'] = {'ino': f.ino, 'exc': type(ex).__name__, 'size': len(data)}
            raise


def _parse_proxy(source, *args, **kw):
    a = _cur()
    real = mods()['real_parse']
    if a is None or a.direct or not isinstance(source, str):
        return real(source, *args, **kw)
    w = a.world
    role = w.role(source)

    def fn(t, e):
        tree = real(source, *args, **kw)
        if role == 'src':
            e['version'] = w.cur_version
            a.last_parse = (w.cur_version, t)
        return tree
    return a.step('parse', fn, shared=w.shared(role), role=role)


_SAVED = {}


def install():
    m = mods()
    cs = m['cachestore']
    if _SAVED:
        raise HarnessError('C18 proxies already installed')
    _SAVED.update({'os': cs.os, 'shutil': cs.shutil, 'tempfile': cs.tempfile, 'pickle': cs.pickle})
    cs.os = OsProxy()
    cs.shutil = ShutilProxy()
    cs.tempfile = TempfileProxy()
    cs.pickle = PickleProxy()
    cs.open = proxy_open
    m['girparser'].parse = _parse_proxy


def uninstall():
    m = mods()
    cs = m['cachestore']
    for k, v in _SAVED.items():
        setattr(cs, k, v)
    _SAVED.clear()
    if 'open' in cs.__dict__:
        del cs.open
    m['girparser'].parse = m['real_parse']


# ------------------------------------------------------------------ running one schedule
_FP = {}          # version -> fingerprint of parse(version)   (per process)
_PICKLES = {}     # version -> pickle of parse(version) tagged as initial entry
_CASE_NO = [0]


def _prepare_tables(scratch):
    if _FP:
        return
    d = os.path.join(scratch, 'fp')
    os.makedirs(d, exist_ok=True)
    path = os.path.join(d, 'Dep-1.0.gir')
    for k in range(N_VERSIONS):
        p = _parse_version(k, path)
        _FP[k] = fingerprint(p, d)
        setattr(p, TAG_ATTR, make_tag(9, 0, k, 0))
        _PICKLES[k] = _pickle.dumps(p)
    if len(set(_FP.values())) != N_VERSIONS:
        raise HarnessError('C18: source versions are not distinguishable after parsing')
    if len(set(len(b) for b in _PICKLES.values())) != 1:
        raise HarnessError('C18: pickles of the versions differ in length (mixing would be undetectable)')
    _shutil.rmtree(d, ignore_errors=True)


def _put(w, path, data, mtime, mode=None):
    with open(path, 'wb') as f:
        f.write(data)
    fd = os.open(path, os.O_RDONLY)
    w.pin(fd)
    os.close(fd)
    if mode is not None:
        os.chmod(path, mode)
    w.stamp(path, 0, mtime)
    return os.stat(path).st_ino


def _clear(w):
    """The directory tree is reused between cases (rmdir/mkdir are slow here); only files are removed."""
    for d in (w.cachedir, w.tmpdir, w.srcdir):
        try:
            names = os.listdir(d)
        except FileNotFoundError:
            os.makedirs(d)
            continue
        for n in names:
            os.unlink(os.path.join(d, n))


def _initial_state(w, case):
    m = mods()
    _put(w, w.src, (SRC_TEMPLATE % {'k': 1}).encode(), SRC_MTIME0)
    cs = m['cachestore'].CacheStore.__new__(m['cachestore'].CacheStore)
    cs._directory = w.cachedir
    w.entry = cs._get_filename(w.src)
    if w.role(w.entry) != 'entry' or os.path.dirname(w.entry) != w.cachedir:
        raise HarnessError('C18: unexpected entry path %r' % w.entry)
    if case.get('vfile', 'v0') == 'v0':
        w.direct.ver = 0
        h = m['cachestore']._get_versionhash()      # through the proxies: fake mtimes of scanner version 0
        _put(w, w.verfile, h.encode('ascii'), 1)
    init = case.get('init', 'absent')
    w.init_ino = None
    if init == 'valid':
        w.init_ino = _put(w, w.entry, _PICKLES[1], 20, 0o600)
    elif init == 'older':
        w.init_ino = _put(w, w.entry, _PICKLES[0], 5, 0o600)
    elif init == 'touched':
        w.init_ino = _put(w, w.entry, _PICKLES[1], 5, 0o600)
    elif init == 'truncated':
        b = _PICKLES[1]
        cut = max(0, min(len(b) - 1, len(b) * int(case.get('cut', 500)) // 1000))
        w.init_ino = _put(w, w.entry, b[:cut], 20, 0o600)
    elif init == 'garbage':
        w.init_ino = _put(w, w.entry, _garbage(int(case.get('garbage', 0))), 20, 0o600)
    elif init == 'unreadable':
        w.init_ino = _put(w, w.entry, _PICKLES[1], 20, 0o000)
    elif init != 'absent':
        raise HarnessError('C18: unknown initial state %r' % init)


def run_schedule(case, scratch):
    """Deterministic function of the case. Returns the history (plain data + the loaded objects)."""
    _prepare_tables(scratch)
    root = os.path.join(scratch, 'w%d' % _CASE_NO[0])
    w = World(case, root)
    _clear(w)
    saved_env = dict((k, os.environ.get(k)) for k in ('XDG_CACHE_HOME', 'GI_SCANNER_DISABLE_CACHE'))
    os.environ['XDG_CACHE_HOME'] = w.cachehome
    os.environ.pop('GI_SCANNER_DISABLE_CACHE', None)
    old_stack = threading.stack_size()
    actors = []
    everyone = []
    probe = None
    install()
    _WORLD[0] = w
    try:
        threading.stack_size(512 * 1024)
        _initial_state(w, case)
        for i, ad in enumerate(case['actors'][:3]):
            actors.append(Actor(w, i, ad['op'], int(ad.get('ver', 0))))
        everyone = list(actors)
        if w.n_rewrites > 0:
            everyone.append(Rewriter(w, 7, 'rewrite', 0))
        crash = case.get('crash')
        for a in everyone:
            a.start()
        sched = list(case.get('sched') or [])
        si = 0
        crashed_effective = False

        def apply_crash():
            if not crash:
                return False
            hit = False
            for a in actors:
                if a.idx != crash['actor'] % len(actors) or a.state != 'parked' or a.crashed:
                    continue
                if 'before' in crash:
                    # killed when about to make its (skip+1)-th step of that kind
                    due = a.pending == crash['before'] and a.kinds.get(a.pending, 0) >= int(crash.get('skip', 0))
                else:
                    due = a.granted >= crash['at']
                if due:
                    a.crashed = True
                    hit = True
            return hit

        def grant(a, c, n):
            w.trace.append((c, n))
            a.state = 'running'
            a.go.release()
            w.wait_back()
            if len(w.log) > 3000:
                raise HarnessError('C18: schedule exceeded 3000 steps')

        while True:
            crashed_effective = apply_crash() or crashed_effective
            runnable = [a for a in everyone if a.state == 'parked' and not a.crashed]
            if not runnable:
                break
            d = sched[si] if si < len(sched) else 0
            si += 1
            if isinstance(d, list):
                # ['u', actor, kind]: run that actor until the step it is about to make is `kind`
                # ['s', actor, n]:    let that actor make n steps          (actor 7 = the rewriter)
                if int(d[1]) == 7:
                    a = everyone[-1] if w.n_rewrites > 0 else None
                else:
                    a = actors[int(d[1]) % len(actors)]
                for i in range(80 if d[0] == 'u' else int(d[2])):
                    crashed_effective = apply_crash() or crashed_effective
                    if a is None or a.state != 'parked' or a.crashed or (d[0] == 'u' and a.pending == d[2]):
                        break
                    runnable = [x for x in everyone if x.state == 'parked' and not x.crashed]
                    grant(a, runnable.index(a), len(runnable))
                continue
            c = int(d) % len(runnable)
            grant(runnable[c], c, len(runnable))
        concurrent_end = w.clock
        probe = Actor(w, 8, 'load', int(case.get('probe_ver', 0)))
        probe.start()
        while probe.state == 'parked':
            probe.state = 'running'
            probe.go.release()
            w.wait_back()
        try:
            final = {'cache': sorted(os.listdir(w.cachedir)), 'tmp': sorted(os.listdir(w.tmpdir))}
        except OSError:
            final = {'cache': [], 'tmp': []}
        h = {'world': w, 'actors': actors, 'probe': probe, 'log': w.log, 'rewrites': list(w.rewrites),
             'hist': w.hist, 'src_hist': list(w.src_hist), 'trace': list(w.trace), 'final': final,
             'crashed': crashed_effective, 'sched_used': min(si, len(sched)), 'concurrent_end': concurrent_end,
             'leaked': 0}
    finally:
        # the verdict only uses what was recorded up to here; now let abandoned threads unwind
        leaked = 0
        threads = list(actors) + [x for x in everyone if x not in actors] + ([probe] if probe is not None else [])
        for a in threads:
            if a.worker is not None and a.alive():
                a.killed = True
                a.go.release()
        for a in threads:
            if a.worker is not None and not a.worker.wait_done(10):
                leaked += 1       # stays parked for ever as a daemon thread; never reused
        _WORLD[0] = None
        uninstall()
        threading.stack_size(old_stack)
        for fd in list(w.openfds) + w.keep:
            try:
                os.close(fd)
            except OSError:
                pass
        for k, v in saved_env.items():
            if v is None:
                os.environ.pop(k, None)
            else:
                os.environ[k] = v
        if leaked:
            _CASE_NO[0] += 1      # never share a directory with a thread that could not be reclaimed
        else:
            _clear(w)
    h['leaked'] = leaked
    return h


# ------------------------------------------------------------------ oracle (invariant over the history)
INF = float('inf')


def _version_at(rewrites, t):
    v = None
    for rt, rv in rewrites:
        if rt <= t:
            v = rv
    return v


def _mtime_at(hist, t):
    m = None
    for ht, hm in hist:
        if ht <= t:
            m = hm
    return m


def _store_of(h, tag):
    for a in h['actors']:
        if a.idx == tag['actor']:
            for s in a.stores:
                if s['parse_t'] == tag['t'] and s['version'] == tag['version']:
                    return s
    return None


def _install_end(s):
    if s is None:
        return 0
    if not s['ret'] or not s['steps']:
        return INF
    return s['steps'][-1]['t']


def _opened(L):
    for e in L['steps']:
        if e['k'] == 'open' and e.get('role') == 'entry':
            return e
    return None


def _shape_a(L):
    """open < replace < stat-by-path: the validity check looked at another inode than the opened one."""
    o = _opened(L)
    if o is None or 'ino' not in o:
        return False
    for e in L['steps']:
        if e['k'] == 'stat' and e.get('role') == 'entry' and e['t'] > o['t'] and 'ino' in e:
            return e['ino'] != o['ino']
    return False


def _shape_b(h, tag):
    """parse < rewrite < store: the source was rewritten between the parse and the end of the store that
    installed the returned entry."""
    if tag is None or tag['actor'] == 9:
        return False
    s = _store_of(h, tag)
    if s is None:
        return False
    end = _install_end(s)
    return any(tag['t'] < rt < end for rt, rv in h['rewrites'])


def _shape_torn(h, L):
    """cross-fs copy into a live entry: the inode the load read was (re)written in place by a cross-fs copy of
    another actor while the load had it open, or by two copies that overlapped each other."""
    w = h['world']
    o = _opened(L)
    if not w.cross or o is None or 'ino' not in o:
        return False
    ino = o['ino']
    t_end = L['steps'][-1]['t']
    writers = {}
    for e in h['log']:
        if e['k'] in ('copy-open-dst', 'copy-chunk') and e.get('ino') == ino and e['a'] != L['a'] and e['t'] <= t_end:
            writers.setdefault(e['a'], []).append(e['t'])
    for a, ts in writers.items():
        if any(t > o['t'] for t in ts):
            return True        # written while the load had it open
    spans = sorted((min(ts), max(ts)) for ts in writers.values())
    for i in range(len(spans) - 1):
        if spans[i + 1][0] < spans[i][1]:
            return True        # two copies interleaved in the same inode
    return False


def _fmt_steps(h, upto=None):
    out = []
    for e in h['log']:
        s = '%d:a%d.%s' % (e['t'], e['a'], e['k'])
        if e.get('role'):
            s += '(%s)' % e['role']
        if e.get('err'):
            s += '!' + e['err']
        if 'version' in e:
            s += '=v%d' % e['version']
        out.append(s)
    return ' '.join(out)[-1800:]


def analyse_load(h, L):
    """-> list of (clause, known-key or None, detail)."""
    w = h['world']
    probs = []
    who = 'probe' if L['a'] == 8 else 'actor %d' % L['a']
    if L['killed'] or not (L['ret'] or L['exc'] is not None):
        return probs
    if L['exc'] is not None:
        ex = L['exc']
        key = None
        o = L['steps'][-1] if L['steps'] else None
        if isinstance(ex, PermissionError) and o is not None and o['k'] == 'open' and o.get('role') == 'entry' \
                and o.get('err') == 'EACCES':
            key = KEY_EACCES
        probs.append(('load-raised:%s' % type(ex).__name__, key,
                      '%s: load raised %r; steps: %s' % (who, ex, _fmt_steps(h))))
        return probs
    # broken entry must be gone after the load that found it broken
    if L['broken'] is not None and L['after_ino'] == L['broken']['ino']:
        probs.append(('broken-entry-not-removed', None,
                      '%s: unpickling failed (%s, %d bytes) but the entry is still in place after the load; steps: %s'
                      % (who, L['broken']['exc'], L['broken']['size'], _fmt_steps(h))))
    obj = L['obj']
    if obj is None:
        return probs
    t1, t2 = L['steps'][0]['t'], L['steps'][-1]['t']
    allowed = set([_version_at(h['rewrites'], t1)])
    allowed.update(rv for rt, rv in h['rewrites'] if t1 < rt <= t2)
    tag = read_tag(obj)
    fp = fingerprint(obj, w.root)
    k = None
    for kk, f in _FP.items():
        if f == fp:
            k = kk
    if k is None or tag is None or tag['version'] != k:
        key = KEY_TORN if _shape_torn(h, L) else None
        probs.append(('torn-or-mixed-object', key,
                      '%s: load returned an object equal to no parse of any source version (tag %r, matches v%s): %s; '
                      'steps: %s' % (who, getattr(obj, TAG_ATTR, None), k, api_summary(obj), _fmt_steps(h))))
        return probs
    sa = _shape_a(L)
    if k not in allowed:
        key = KEY_A if sa else (KEY_B if _shape_b(h, tag) else None)
        probs.append(('stale-read', key,
                      '%s: load (steps %d..%d) returned parse(v%d) [tag %s] but the versions current during the load '
                      'were %s; rewrites %r; steps: %s'
                      % (who, t1, t2, k, getattr(obj, TAG_ATTR), sorted(allowed), h['rewrites'][1:], _fmt_steps(h))))
    # an entry older than its source is never used
    o = _opened(L)
    if o is not None and 'ino' in o:
        eh = h['hist'].get(o['ino'], [])
        times = [t1] + [t for t, _ in eh if t1 < t <= t2] + [t for t, _ in h['src_hist'] if t1 < t <= t2]
        if all((_mtime_at(eh, t) or 0) < _mtime_at(h['src_hist'], t) for t in times):
            probs.append(('older-entry-used', KEY_A if sa else None,
                          '%s: the entry that was read (inode mtime history %r) was older than the source (%r) during '
                          'the whole load %d..%d; steps: %s' % (who, eh, h['src_hist'], t1, t2, _fmt_steps(h))))
    # after a scanner-version change no pre-existing entry is returned
    if L['ver'] == 1 and tag['ver'] == 0:
        firsts = [a.ctor['first'] for a in h['actors'] + [h['probe']] if a.ver == 1 and a.ctor['first'] is not None]
        t_change = min(firsts) if firsts else None
        inst = 0 if tag['actor'] == 9 else _install_end(_store_of(h, tag))
        if t_change is not None and inst < t_change:
            probs.append(('pre-existing-entry-after-version-change', None,
                          '%s (scanner version 1, first constructed at step %d) was handed an entry installed at step '
                          '%s by scanner version 0; steps: %s' % (who, t_change, inst, _fmt_steps(h))))
    return probs


def analyse_other(h):
    """Exceptions outside load: the scanner would die with a traceback instead of emitting a GIR."""
    probs = []
    for a in h['actors'] + [h['probe']]:
        if a.error is None:
            continue
        if any(L['exc'] is a.error for L in a.loads):
            continue
        ex = a.error
        where = 'constructor' if not a.ctor['done'] else 'store'
        key = None
        last = None
        for e in h['log']:
            if e['a'] == a.idx and e.get('err'):
                last = e
        if where == 'store' and isinstance(ex, FileNotFoundError) and last is not None and last['k'] == 'copystat':
            key = KEY_COPYSTAT
        probs.append(('%s-raised:%s' % (where, type(ex).__name__), key,
                      'actor %d: %s raised %r; steps: %s' % (a.idx, where, ex, _fmt_steps(h))))
    return probs


# ------------------------------------------------------------------ check_case
_LAST = {}


def _nontrivial(h):
    n1 = n2 = False
    loads = [L for a in h['actors'] for L in a.loads]
    for L in loads:
        o = _opened(L)
        if o is None or 'ino' not in o:
            continue
        t_end = L['steps'][-1]['t']
        for e in h['log']:
            if e['a'] != L['a'] and e['a'] < 7 and e['k'] in ('rename', 'copy-open-dst', 'copy-chunk', 'copystat') \
                    and e.get('role') == 'entry' and o['t'] < e['t'] < t_end:
                n1 = True
    for a in h['actors']:
        for s in a.stores:
            end = _install_end(s)
            if end == INF:
                end = s['steps'][-1]['t'] if s['steps'] else 0
            if any(s['parse_t'] < rt < end for rt, rv in h['rewrites']):
                n2 = True
    return n1, n2


def normalise(case):
    if not isinstance(case, dict) or not case.get('actors'):
        raise HarnessError('C18: malformed case %r' % (case,))
    return case


_FAST = [None]


def _scratch(ctx):
    """File creation/removal on the disk file system costs ~1 ms here; the schedules run on tmpfs when there is
    one (VERIF_C18_SCRATCH overrides), else under ctx.mkscratch()."""
    base = os.environ.get('VERIF_C18_SCRATCH')
    if base is None and os.path.isdir('/dev/shm') and os.access('/dev/shm', os.W_OK):
        base = '/dev/shm'
    if not base:
        return ctx.mkscratch()
    if _FAST[0] is None:
        d = os.path.join(base, 'verif-c18-%d-%d' % (os.getpid(), ctx.shard))
        _shutil.rmtree(d, ignore_errors=True)
        os.makedirs(d)
        _FAST[0] = d
        import atexit
        atexit.register(_shutil.rmtree, d, True)
    return _FAST[0]


def check_case(case, ctx):
    if 'e2e' in case:
        return _check_e2e(case, ctx)
    case = normalise(case)
    h = run_schedule(case, _scratch(ctx))
    _LAST['trace'] = h['trace']
    _LAST['history'] = h
    w = h['world']
    # labels
    ctx.label('init:' + case.get('init', 'absent'), 'cross-fs' if w.cross else 'same-fs',
              'actors:%d' % len(h['actors']), 'rewrites:%d' % w.n_rewrites)
    if h['crashed']:
        ctx.label('crash')
        ca = h['actors'][case['crash']['actor'] % len(h['actors'])]
        if ca.stores and not ca.stores[-1]['ret'] and ca.stores[-1]['exc'] is None:
            ctx.label('crash-inside-store')
    if any(a.ver == 1 for a in h['actors']):
        ctx.label('purge-actor')
    if case.get('vfile', 'v0') == 'absent':
        ctx.label('no-version-file')
    if h['leaked']:
        ctx.label('leaked-thread')
    for a in h['actors'] + [h['probe']]:
        for L in a.loads:
            if L['ret']:
                ctx.label('load-hit' if L['obj'] is not None else 'load-miss')
                if L['broken'] is not None:
                    ctx.label('broken-entry-discarded')
        for s in a.stores:
            if s['ret']:
                ctx.label('store-completed')
    if any(e['k'] == 'unlink' and e['phase'] == 'ctor' and e.get('role') == 'entry' and not e.get('err')
           for e in h['log']):
        ctx.label('purged-an-entry')
    n1, n2 = _nontrivial(h)
    if n1:
        ctx.label('install-inside-load')
    if n2:
        ctx.label('rewrite-between-parse-and-store')
    if n1 or n2:
        ctx.note_nontrivial(case)
        ctx.sample({'case': case, 'steps': _fmt_steps(h)[:900]}, 3)
    # verdict
    probs = []
    for a in h['actors'] + [h['probe']]:
        for L in a.loads:
            probs.extend(analyse_load(h, L))
    probs.extend(analyse_other(h))
    for clause, key, detail in probs:
        if key is not None and ctx.known(key):
            continue
        raise Violation(clause, detail)


# ------------------------------------------------------------------ end-to-end clause
NS = {'name': 'Foo', 'version': '1.0', 'id_prefixes': ['Foo'], 'sym_prefixes': ['foo']}
_E2E_TYPES = [('GObject', 1), ('GType', 0), ('GValue', 1), ('GClosure', 1), ('GList', 1), ('GError', 2),
              ('GQuark', 0), ('GParamFlags', 0), ('GBindingFlags', 0), ('GCallback', 0), ('GParamSpec', 1),
              ('GHashTable', 1), ('GBytes', 1), ('GDate', 1), ('gint', 0), ('gpointer', 0), ('GInitiallyUnowned', 1),
              ('GTypePlugin', 1), ('GPid', 0), ('GTimeSpan', 0)]


@st.composite
def _e2e_case(draw):
    decls = []
    for i in range(draw(st.integers(1, 6))):
        params = []
        for j in range(draw(st.integers(0, 4))):
            t, stars = draw(st.sampled_from(_E2E_TYPES))
            params.append(param('p%d' % j, ty(t, kind='typedef', ptrs=[0] * stars)))
        rt, rstars = draw(st.sampled_from(_E2E_TYPES + [('void', 0)]))
        ret = ty('void') if rt == 'void' else ty(rt, kind='typedef', ptrs=[0] * rstars)
        decls.append({'d': 'function', 'name': 'foo_f%d' % i, 'ret': ret, 'params': params})
    inc = draw(st.sampled_from([['GObject-2.0'], ['GObject-2.0'], ['Gio-2.0'], ['GLib-2.0', 'GModule-2.0']]))
    return {'e2e': {'includes': inc, 'decls': decls}}


def _check_e2e(case, ctx):
    spec = case['e2e']
    m = mods()
    scratch = os.path.join(ctx.mkscratch(), 'e2e')
    _shutil.rmtree(scratch, ignore_errors=True)
    os.makedirs(scratch)
    saved = dict((k, os.environ.get(k)) for k in ('XDG_CACHE_HOME', 'GI_SCANNER_DISABLE_CACHE'))
    os.environ['XDG_CACHE_HOME'] = os.path.join(scratch, 'xdg')
    os.environ.pop('GI_SCANNER_DISABLE_CACHE', None)
    full = {'ns': NS, 'includes': spec['includes'], 'decls': spec['decls'], 'comments': [], 'dump': None}
    CS = m['cachestore'].CacheStore
    orig_load = CS.load
    hits = {}

    def counting_load(self, filename):
        r = orig_load(self, filename)
        hits[mode] = hits.get(mode, 0) + (r is not None)
        return r
    CS.load = counting_load
    outs = {}
    try:
        for mode in ('cold', 'warm', 'off'):
            try:
                res = pipeline.run(full, os.path.join(scratch, 's'), cache=(mode != 'off'))
            except Exception as e:
                raise Violation(crash_clause(e), 'end-to-end %s: %r' % (mode, e))
            outs[mode] = (res.fatal, res.gir)
    finally:
        CS.load = orig_load
        for k, v in saved.items():
            if v is None:
                os.environ.pop(k, None)
            else:
                os.environ[k] = v
        _shutil.rmtree(scratch, ignore_errors=True)
    ctx.label('e2e')
    if hits.get('warm', 0) > 0 and hits.get('cold', 0) == 0:
        ctx.label('e2e-warm-hit')
    if outs['cold'][0] is not None:
        ctx.label('e2e-fatal')
    for mode in ('cold', 'warm'):
        if outs[mode] != outs['off']:
            raise Violation('cache-changes-emitted-gir',
                            'GIR emitted with %s cache differs from cache disabled (fatal %r vs %r, %d vs %d bytes)'
                            % (mode, outs[mode][0], outs['off'][0], len(outs[mode][1] or b''), len(outs['off'][1] or b'')))


# ------------------------------------------------------------------ generator
def _expand(runs):
    out = []
    for a, n in runs:
        out.extend([a] * n)
    return out[:160]


UNTIL_KINDS = ['rename', 'rename', 'stat', 'stat', 'read', 'read', 'open', 'unlink', 'parse', 'mkstemp', 'mkstemp',
               'write', 'close', 'listdir', 'copy-open-dst', 'copy-open-dst', 'copy-chunk', 'copystat', 'copystat',
               'unlink-src']
_ACT = st.sampled_from([0, 1, 2, 0, 1, 2, 7])
CRASH_KINDS = ['write', 'write', 'close', 'rename', 'copy-open-dst', 'copy-chunk', 'copy-chunk', 'copystat',
               'unlink-src', 'unlink', 'read', 'stat', 'listdir', 'mkstemp']


def _directed():
    until = st.tuples(st.just('u'), _ACT, st.sampled_from(UNTIL_KINDS)).map(list)
    steps = st.tuples(st.just('s'), _ACT, st.integers(1, 6)).map(list)
    return st.lists(st.one_of(until, until, steps, st.integers(0, 3)), max_size=30)


def _sched():
    """A schedule is a list of directives: an int picks the i-th runnable actor for one step; ['u', a, kind]
    runs actor a until the step it is about to make is `kind`; ['s', a, n] lets actor a make n steps
    (a = 7: the rewriter). When the list is used up the first runnable actor runs."""
    fine = st.lists(st.integers(0, 3), max_size=120)
    runs = st.lists(st.tuples(st.integers(0, 3), st.integers(1, 9)), max_size=30).map(_expand)
    return st.one_of(fine, runs, _directed(), _directed())


@st.composite
def _case(draw):
    flavour = draw(st.sampled_from(['free', 'free', 'free', 'race', 'race', 'race', 'late', 'purge', 'midread']))
    n = draw(st.integers(1, 3))
    actors = [{'op': draw(st.sampled_from(['load', 'include', 'include', 'store'])),
               'ver': draw(st.sampled_from([0, 0, 0, 1]))} for _ in range(n)]
    init = draw(st.sampled_from(INITS))
    rewrites = draw(st.sampled_from([0, 1, 1, 2]))
    if flavour == 'race':
        # a writer (actor 0) is brought to its install step, a reader (actor 1) into its load, then both advance
        n = max(n, 2)
        actors = (actors + [{'op': 'load', 'ver': 0}])[:n]
        actors[0]['op'] = draw(st.sampled_from(['store', 'store', 'store', 'include']))
        actors[1]['op'] = draw(st.sampled_from(['load', 'load', 'include']))
        init = draw(st.sampled_from(['valid', 'older', 'touched', 'truncated', 'garbage', 'absent', 'unreadable']))
        t = draw(st.tuples(st.sampled_from(['rename', 'copy-open-dst', 'copy-chunk', 'copystat', 'mkstemp']),
                           st.sampled_from(['stat', 'stat', 'read', 'open', 'close', 'unlink']),
                           st.integers(1, 5), st.integers(0, 4), st.booleans()))
        head = [['u', 0, t[0]], ['u', 1, t[1]]]
        if t[4]:
            head.reverse()
        sched = head + [['s', 0, t[2]], ['s', 1, t[3]]] + draw(_directed())
    elif flavour == 'late':
        # the source is rewritten while a writer sits between its parse and the end of its store
        actors[0]['op'] = draw(st.sampled_from(['store', 'include']))
        if actors[0]['op'] == 'include':
            init = draw(st.sampled_from(['absent', 'older', 'touched', 'truncated', 'garbage']))
        rewrites = max(1, rewrites)
        t = draw(st.tuples(st.sampled_from(['stat', 'mkstemp', 'write', 'rename', 'copy-open-dst', 'copystat']),
                           st.integers(1, 2)))
        sched = [['u', 0, 'parse'], ['s', 0, 1], ['u', 0, t[0]], ['s', 7, t[1]]] + draw(_directed())
    elif flavour == 'purge':
        # a scanner of the new version is stopped inside its constructor (purge) while others go on
        actors[0]['ver'] = 1
        if n > 1:
            actors[1]['ver'] = draw(st.sampled_from([0, 1, 1]))
        init = draw(st.sampled_from(['valid', 'valid', 'older', 'touched', 'truncated', 'unreadable']))
        t = draw(st.tuples(st.sampled_from(['listdir', 'unlink', 'mkstemp', 'write', 'rename', 'copy-open-dst', 'copystat']),
                           st.integers(0, 12), st.integers(0, 3), st.booleans()))
        if t[3]:
            # a reader of the old version is inside its load (entry opened) when the purge removes the entry
            n = max(n, 2)
            actors = (actors + [{'op': 'load', 'ver': 0}])[:n]
            actors[1] = {'op': draw(st.sampled_from(['load', 'include'])), 'ver': 0}
            sched = [['u', 1, 'stat'], ['u', 0, draw(st.sampled_from(['unlink', 'unlink', 'listdir', t[0]]))],
                     ['s', 0, 1 + t[2]]] + draw(_directed())
        else:
            sched = [['u', 0, t[0]], ['s', 1, t[1]], ['s', 0, t[2]]] + draw(_directed())
    elif flavour == 'midread':
        # a reader has validated and partly read the entry when the source changes and a writer replaces the entry
        n = max(n, 2)
        actors = (actors + [{'op': 'include', 'ver': 0}])[:n]
        actors[0] = {'op': draw(st.sampled_from(['load', 'include'])), 'ver': 0}
        actors[1] = {'op': draw(st.sampled_from(['include', 'store'])), 'ver': 0}
        init = 'valid'
        rewrites = max(1, rewrites)
        t = draw(st.tuples(st.integers(0, 3), st.sampled_from(['rename', 'copy-open-dst', 'copy-chunk', 'copystat', 'unlink-src']),
                           st.integers(0, 4)))
        sched = [['u', 0, 'stat'], ['u', 0, 'read'], ['s', 0, t[0]], ['s', 7, 1], ['u', 1, t[1]], ['s', 1, t[2]]] \
            + draw(_directed())
    else:
        sched = draw(_sched())
    crash = draw(st.one_of(st.none(), st.none(), st.none(),
                           st.fixed_dictionaries({'actor': st.integers(0, n - 1), 'at': st.integers(0, 28)}),
                           st.fixed_dictionaries({'actor': st.integers(0, n - 1),
                                                  'before': st.sampled_from(CRASH_KINDS), 'skip': st.integers(0, 3)})))
    probe_ver = draw(st.sampled_from([0, 0, 0, 1]))
    if flavour == 'purge' and draw(st.integers(0, 2)) == 0:
        # the purging scanner is killed inside its constructor; scanners of the new version look afterwards
        for a in actors:
            a['ver'] = 1
        crash = {'actor': 0, 'before': draw(st.sampled_from(['listdir', 'unlink', 'rename', 'mkstemp', 'copy-chunk',
                                                             'copystat', 'unlink-src'])), 'skip': 0}
        probe_ver = draw(st.sampled_from([1, 1, 0]))
        init = draw(st.sampled_from(['valid', 'valid', init]))
    return {'actors': actors,
            'rewrites': rewrites,
            'init': init,
            'cut': draw(st.integers(1, 999)),
            'garbage': draw(st.integers(0, len(GARBAGE) + N_DAMAGED - 1)),
            'vfile': draw(st.sampled_from(['v0', 'v0', 'v0', 'v0', 'absent'])),
            'cross': draw(st.booleans()),
            'chunk': draw(st.sampled_from([600, 1200, 4096])),
            'coarse': draw(st.booleans()),
            'crash': crash,
            'probe_ver': probe_ver,
            'sched': sched}


# ------------------------------------------------------------------ bounded-exhaustive enumeration
def enum_configs():
    """The smallest configurations, each small enough for ALL interleavings of its two operations to be run:
    A  two scanners of the same version, all pairs x initial entry x same-fs/cross-fs;
    B  A plus one source rewrite at every possible position (same-fs, pairs other than include||include);
    C  the second scanner has a new version, so its constructor (purge) is interleaved too (same-fs)."""
    cfgs = []
    pairs = []
    for i, a in enumerate(OPS):
        for b in OPS[i:]:
            pairs.append((a, b))

    def cfg(pa, pb, vb, rw, init, cross, chunk):
        return {'actors': [{'op': pa, 'ver': 0}, {'op': pb, 'ver': vb}], 'rewrites': rw, 'init': init, 'cut': 500,
                'garbage': 0, 'vfile': 'v0', 'cross': cross, 'chunk': chunk, 'crash': None, 'probe_ver': 0,
                'sched': [], 'coarse': True, 'preconstruct': vb == 0}
    for pa, pb in pairs:
        for init in ('absent', 'valid', 'older', 'truncated'):
            for cross in (False, True):
                big = cross and (pa, pb) == ('include', 'include')
                if big and init == 'truncated':
                    continue        # > 40000 interleavings; covered by the random search only
                cfgs.append(cfg(pa, pb, 0, 0, init, cross, 4096 if big else 1200))
            if init == 'truncated':
                continue
            if (pa, pb) != ('include', 'include'):
                cfgs.append(cfg(pa, pb, 0, 1, init, False, 4096))
            cfgs.append(cfg(pa, pb, 1, 0, init, False, 4096))
    return cfgs


def enumerate_config(ctx, base, limit=None):
    """Stateless DFS over the scheduler's decision tree: every maximal schedule is run exactly once."""
    stack = [[]]
    runs = 0
    while stack:
        prefix = stack.pop()
        case = dict(base)
        case['sched'] = prefix
        _LAST.pop('trace', None)
        ctx.label('enumerated')
        ctx.run_case(case, reraise=False)
        runs += 1
        trace = _LAST.get('trace')
        if trace is None:
            break
        for i in range(len(prefix), len(trace)):
            c, n = trace[i]
            for alt in range(c + 1, n):
                stack.append([x for x, _ in trace[:i]] + [alt])
        if limit is not None and runs >= limit:
            return runs, False
    return runs, True


def plan(tier):
    if tier == 'quick':
        return [{'n': 220, 'e2e': 10, 'enum': None} for i in range(16)]
    return [{'n': 20000, 'e2e': 150, 'enum': i} for i in range(16)]


def _pin(shard):
    """All actor threads of a worker take turns, so one CPU per worker is enough; wake-ups across CPUs are
    ~10x slower on this VM."""
    try:
        cpus = sorted(os.sched_getaffinity(0))
        if len(cpus) > 1:
            os.sched_setaffinity(0, set([cpus[shard % len(cpus)]]))
    except (AttributeError, OSError):
        pass


def run_shard(ctx, spec):
    _pin(ctx.shard)
    try:
        _run_shard(ctx, spec)
    finally:
        if _FAST[0]:
            _shutil.rmtree(_FAST[0], ignore_errors=True)


def _run_shard(ctx, spec):
    if spec.get('e2e'):
        ctx.hyp(_e2e_case(), spec['e2e'], name='e2e')
    if spec.get('enum') is not None:
        cfgs = enum_configs()
        total = 0
        complete = True
        for cfg in cfgs[spec['enum']::16]:
            n, done = enumerate_config(ctx, cfg, limit=40000)
            total += n
            complete = complete and done
        ctx.extra['enumerated_interleavings'] = total
        ctx.extra['enumerated_configs'] = len(cfgs[spec['enum']::16])
        ctx.extra['exhaustive'] = complete
        ctx.extra['exhaustive_part'] = ('all interleavings of two operations out of load/include/store: (A) same scanner '
                                        'version x initial entry absent/valid/older/truncated x same-fs/cross-fs, (B) A '
                                        'same-fs with one source rewrite at every position, (C) second scanner of a new '
                                        'version with its purging constructor interleaved; steps on actor-private files '
                                        'are merged with the preceding step (they commute with every step of the other '
                                        'actor); followed by a sequential probe load')
    ctx.hyp(_case(), spec['n'])


def health(agg, tier):
    lab = agg['labels']
    # the distribution gates describe the random schedules; the exhaustively enumerated two-operation configurations of
    # the thorough tier have their own, fixed mix (no crashes, half of them cross-fs) and are counted separately
    enumerated = lab.get('enumerated', 0)
    n = max(1, agg['evals'] - lab.get('e2e', 0) - enumerated)
    probs = []
    for name, frac in (('crash', 0.06), ('crash-inside-store', 0.01), ('cross-fs', 0.25), ('same-fs', 0.25),
                       ('purge-actor', 0.15), ('purged-an-entry', 0.10), ('init:truncated', 0.05),
                       ('init:garbage', 0.04), ('init:unreadable', 0.025), ('init:older', 0.05), ('init:valid', 0.05),
                       ('init:absent', 0.05), ('load-hit', 0.20), ('broken-entry-discarded', 0.04),
                       ('install-inside-load', 0.01), ('rewrite-between-parse-and-store', 0.04),
                       ('excluded_known:' + KEY_B, 0.004)):
        if lab.get(name, 0) < frac * n:
            probs.append('%s in %d of %d schedules (< %.1f%%)' % (name, lab.get(name, 0), n, frac * 100))
    if lab.get('e2e', 0) and lab.get('e2e-warm-hit', 0) < 0.9 * lab['e2e']:
        probs.append('end-to-end warm runs hit the cache in %d of %d cases' % (lab.get('e2e-warm-hit', 0), lab['e2e']))
    if lab.get('leaked-thread', 0) > 0.01 * n:
        probs.append('%d actor threads could not be reclaimed' % lab['leaked-thread'])
    return probs
