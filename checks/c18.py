"""C18 - the dependency-GIR cache never serves stale or torn data.

The harness owns the schedule: for the duration of a case the module globals
giscanner.cachestore uses for file-system access (os, shutil, tempfile, pickle,
and `open` injected as a module global) and giscanner.girparser.parse are
replaced by proxies that perform the real operation inside a per-case scratch
directory and turn every file-system step into a yield point. Each actor (one
scanner process) runs in its own thread and advances one step only when the
scheduler grants it; the scheduler follows the case's list of actor choices.
Time is a logical clock (one tick per step) written into st_mtime with utime.
A crash is an actor that is never scheduled again.
"""
import errno
import hashlib
import json
import os
import pickle as _pickle
import shutil as _shutil
import stat as _stat
import threading

from hypothesis import strategies as st

from vlib import pipeline
from vlib.cmodel import ty, param
from vlib.runner import Violation, HarnessError, crash_clause

ID = 'C18'
LEVEL = 'exploration'
RULE = ('Hypothesis-generated cases = (1-3 cache actors out of load / include (real Transformer._parse_include: load, '
        'on miss parse + store) / store, each with a scanner version 0|1 (1 = constructed after a scanner-version '
        'change: purge), 0-2 rewrites of the source GIR by a fourth actor, initial entry absent/valid/older/touched/'
        'truncated/garbage/unreadable, .cache-version present/absent, same-fs rename vs cross-fs copy+unlink, buffer '
        'chunk size, optional kill -9 point, and the interleaving as a list of actor choices over the file-system '
        'steps); a final sequential probe load observes the end state. thorough adds the bounded-exhaustive '
        'enumeration of all interleavings of two operations (steps on actor-private files merged). end-to-end: '
        'generated headers using GObject/GLib types run cold/warm/cache-disabled. non-trivial = a store\'s '
        'rename/copy step falls between a load\'s open and its last step, or a source rewrite falls between a parse '
        'and the corresponding store; distinct = hash of the case')
ASSUMPTIONS = [
    'interleaving granularity = one system-call-like step (open, stat, read chunk, write chunk, close, rename, '
    'unlink, listdir, mkstemp; cross-fs move = open src, open/truncate dst, copy chunks, close, utime+chmod by path, '
    'unlink src, as shutil.move/copy2 do); steps are atomic and sequentially consistent',
    'logical clock: every step is a distinct instant, so equal mtimes arise only through copystat; mtime '
    'granularity effects are out of scope',
    'buffered data is written in chunks of the case\'s chunk size; a killed actor loses its unwritten buffer',
    'an "unreadable" entry is modelled by mode 000 (the harness raises EACCES on open, tests run as root)',
    'garbage entries are byte strings that are not pickles; well-formed pickles of foreign objects are out of domain',
    'provenance of a cached object is carried by a fixed-width tag attribute added to the stored GIRParser',
    'end-to-end clause uses substrate P (stub C front end) and the fixture GIRs',
]
TECHNIQUE = ('property-based testing (Hypothesis) with a deterministic cooperative scheduler over proxied file-system '
             'steps (threads used as coroutines), logical clock, crash injection; stateless DFS enumeration of '
             'two-operation interleavings; history-invariant oracle')
LEVEL_TEXT = ('Randomised search over schedules, crash points, initial states and source histories; bounded-exhaustive '
              'over two-operation interleavings of the smallest configurations (thorough tier). Oracle written from '
              'the statement as an invariant over the recorded history.')
LEVEL_NOTE = 'trusts the step model of the file system (see assumptions); two structural shapes of stale read, one torn read shape and one raise are excluded as known findings'
DESIGN_REF = 'DESIGN.md section 2, C18; section 5 item 3'

TAG_ATTR = '_verif_tag'
T0 = 100                  # logical clock at the start of a schedule; initial files carry smaller stamps
SRC_MTIME0 = 10
TIMEOUT = 60

SRC_TEMPLATE = '''<?xml version="1.0"?>
<repository version="1.2" xmlns="http://www.gtk.org/introspection/core/1.0" xmlns:c="http://www.gtk.org/introspection/c/1.0" xmlns:glib="http://www.gtk.org/introspection/glib/1.0">
  <package name="dep-1.0"/>
  <c:include name="dep/dep.h"/>
  <namespace name="Dep" version="1.0" shared-library="libdep.so.0" c:identifier-prefixes="Dep" c:symbol-prefixes="dep">
    <alias name="Stamp%(k)d" c:type="DepStamp%(k)d"><type name="gint" c:type="gint"/></alias>
    <enumeration name="Kind%(k)d" c:type="DepKind%(k)d">
      <member name="first" value="%(k)d" c:identifier="DEP_KIND%(k)d_FIRST"/>
      <member name="second" value="1%(k)d" c:identifier="DEP_KIND%(k)d_SECOND"/>
    </enumeration>
    <record name="Box" c:type="DepBox">
      <field name="size" writable="1"><type name="gint" c:type="gint"/></field>
      <field name="rev%(k)d" writable="1"><type name="Stamp%(k)d" c:type="DepStamp%(k)d"/></field>
    </record>
    <callback name="Notify" c:type="DepNotify">
      <return-value transfer-ownership="none"><type name="none" c:type="void"/></return-value>
      <parameters><parameter name="box" transfer-ownership="none"><type name="Box" c:type="DepBox*"/></parameter></parameters>
    </callback>
    <record name="Tail%(k)d" c:type="DepTail%(k)d">
      <field name="kind" writable="1"><type name="Kind%(k)d" c:type="DepKind%(k)d"/></field>
    </record>
  </namespace>
</repository>
'''
N_VERSIONS = 4    # 0 = content of an 'older' initial entry only; 1 = current at the start; 2, 3 = rewrites

GARBAGE = [b'', b'\x00', b'this is not a pickle\n', b'\x80\x04\x95\xff\xff\xff\xff\xff\xff\xff\x7f', b'\x80\x04N',
           b'<?xml version="1.0"?>\n<repository/>\n', b'\x80\x05\x95\x10\x00\x00\x00\x00\x00\x00\x00\x8c\x03abc']
INITS = ['absent', 'valid', 'older', 'touched', 'truncated', 'garbage', 'unreadable']
OPS = ['load', 'include', 'store']
SHARED_ROLES = ('entry', 'ver', 'src', 'cache')
INSTALL_KINDS = ('rename', 'copy-open-dst', 'copy-chunk', 'copystat', 'open-w', 'write')

KEY_B = 'stale:parse<rewrite<store'
KEY_A = 'stale:open<replace<stat-by-path'
KEY_TORN = 'torn:cross-fs-copy-into-live-entry'
KEY_EACCES = 'raise:unreadable-entry'
KEY_COPYSTAT = 'raise:store-cross-fs-entry-removed-during-copy'


class Killed(BaseException):
    """Raised inside the proxies of an abandoned actor *after* the case has been judged,
    only to let its thread unwind; every proxy is a no-op for a killed actor."""


# ------------------------------------------------------------------ modules under test
_MODS = None


def mods():
    global _MODS
    if _MODS is None:
        m = pipeline.M()
        from giscanner import cachestore, girparser, transformer
        _MODS = {'cachestore': cachestore, 'girparser': girparser, 'transformer': transformer,
                 'ast': m['ast'], 'real_parse': girparser.parse}
    return _MODS


# ------------------------------------------------------------------ fingerprints
def _canon(o, memo, root):
    if o is None or isinstance(o, (bool, int, float)):
        return o
    if isinstance(o, str):
        return o.replace(root, '<ROOT>') if root else o
    if isinstance(o, bytes):
        return ['bytes', o.decode('latin-1')]
    oid = id(o)
    if oid in memo:
        return ['ref', memo[oid]]
    memo[oid] = len(memo)
    if isinstance(o, (list, tuple)):
        return [type(o).__name__] + [_canon(x, memo, root) for x in o]
    if isinstance(o, dict):
        return ['dict'] + [[_canon(k, memo, root), _canon(v, memo, root)] for k, v in o.items()]
    if isinstance(o, (set, frozenset)):
        items = sorted(o, key=lambda x: json.dumps(_canon(x, {}, root), sort_keys=True, default=repr))
        return ['set'] + [_canon(x, memo, root) for x in items]
    cls = '%s.%s' % (type(o).__module__, type(o).__qualname__)
    d = getattr(o, '__dict__', None)
    if d is None:
        slots = []
        for c in type(o).__mro__:
            slots.extend(getattr(c, '__slots__', ()))
        if not slots:
            return ['opaque', cls, repr(o)]
        d = dict((s, getattr(o, s)) for s in slots if hasattr(o, s))
    return ['obj', cls, [[k, _canon(v, memo, root)] for k, v in sorted(d.items()) if k != TAG_ATTR]]


def fingerprint(obj, root=None):
    """Deep structural fingerprint of a GIRParser (whole object graph, tag excluded)."""
    s = json.dumps(_canon(obj, {}, root), sort_keys=True, default=repr)
    return hashlib.sha1(s.encode('utf-8', 'replace')).hexdigest()


def api_summary(obj):
    try:
        ns = obj.get_namespace()
        return '%s-%s %s' % (ns.name, ns.version, sorted(ns.names))
    except Exception as e:  # noqa
        return 'unusable object %r (%s)' % (type(obj).__name__, e)


def _parse_version(k, path):
    with open(path, 'w') as f:
        f.write(SRC_TEMPLATE % {'k': k})
    p = mods()['girparser'].GIRParser(types_only=True)
    p.parse(path)
    return p


def make_tag(actor, ver, version, t):
    return 'a%dv%dk%dt%06d' % (actor, ver, version, t)


def read_tag(obj):
    tag = getattr(obj, TAG_ATTR, None)
    if not isinstance(tag, str) or len(tag) != 13:
        return None
    try:
        return {'actor': int(tag[1]), 'ver': int(tag[3]), 'version': int(tag[5]), 't': int(tag[7:])}
    except ValueError:
        return None
