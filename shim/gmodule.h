#ifndef __VERIF_GMODULE_SHIM_H__
#define __VERIF_GMODULE_SHIM_H__
#include <glib.h>
typedef enum { G_MODULE_BIND_LAZY = 1 << 0, G_MODULE_BIND_LOCAL = 1 << 1, G_MODULE_BIND_MASK = 0x03 } GModuleFlags;
typedef struct _GModule GModule;
gboolean g_module_supported (void); GModule *g_module_open (const gchar *file_name, GModuleFlags flags);
gboolean g_module_close (GModule *module); void g_module_make_resident (GModule *module); const gchar *g_module_error (void);
gboolean g_module_symbol (GModule *module, const gchar *symbol_name, gpointer *symbol); const gchar *g_module_name (GModule *module);
#define G_MODULE_EXPORT __attribute__((visibility("default")))
#endif
