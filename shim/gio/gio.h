#ifndef __VERIF_GIO_SHIM_H__
#define __VERIF_GIO_SHIM_H__
#include <glib-object.h>
typedef struct _GFile GFile; typedef struct _GCancellable GCancellable;
typedef enum { G_FILE_COPY_NONE = 0, G_FILE_COPY_OVERWRITE = (1 << 0) } GFileCopyFlags;
typedef void (*GFileProgressCallback) (goffset current_num_bytes, goffset total_num_bytes, gpointer data);
GFile *g_file_new_for_path (const char *path);
gboolean g_file_move (GFile *source, GFile *destination, GFileCopyFlags flags, GCancellable *cancellable, GFileProgressCallback progress_callback, gpointer progress_callback_data, GError **error);
#endif
