#include <glib.h>
