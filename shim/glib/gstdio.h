#include <glib.h>
#include <stdio.h>
#include <sys/stat.h>
FILE *g_fopen (const gchar *filename, const gchar *mode);
int g_unlink (const gchar *filename); int g_remove (const gchar *filename); int g_rename (const gchar *oldfilename, const gchar *newfilename);
int g_mkdir (const gchar *filename, int mode); int g_open (const gchar *filename, int flags, int mode);
